#!/bin/bash
# build /repo/_build and run the pinned suite; prints FAILED loudly
cd /repo && out=$(cmake --build _build 2>&1); if echo "$out" | grep -q "FAILED\|error:"; then echo "$out" | grep -A8 "FAILED" | head -30; echo "BUILD FAILED"; exit 1; fi
ctest --test-dir _build -j8 --timeout 900 2>&1 | tail -3
