// d2: Hu-Tucker/Huffman front-coding (StringDictionaryHTFC; the code is shared
// with HHTFC and RPHTFC): an internal string whose common prefix with its
// predecessor is a multiple of 128 bytes (128, 256, ...) has a VByte-encoded
// prefix length whose first byte is 0x00.  The decoder takes that byte for the
// end of the string.
//
// Two inputs, each run in a child process so that a crash of the first does
// not hide the second:
//   A) 3 strings,  bucketsize 4  (the 0x00 is met by DecodingTable::getSubstring)
//   B) 23 strings, bucketsize 4  (the 0x00 is met by StatCoder::decodeString /
//      IteratorDictStringHTFC::decodeNextString in the chars decoded in advance)
// exit status 0 = every extract/locate/extractTable answer is right.
#include <StringDictionary.h>

#include <sys/wait.h>
#include <unistd.h>

#include <algorithm>
#include <cstdio>
#include <cstring>
#include <sstream>
#include <string>
#include <vector>

static StringDictionary *build(const std::vector<std::string> &v, uint bs) {
  size_t total = 0;
  for (auto &s : v)
    total += s.size() + 1;
  uchar *buf = new uchar[total];
  size_t p = 0;
  for (auto &s : v) {
    memcpy(buf + p, s.c_str(), s.size() + 1);
    p += s.size() + 1;
  }
  return new StringDictionaryHTFC(new IteratorDictStringPlain(buf, total), bs);
}

static int check(StringDictionary *d, const std::vector<std::string> &v,
                 const char *what) {
  int bad = 0;
  for (size_t i = 1; i <= v.size(); i++) {
    const std::string &e = v[i - 1];
    uint len = 0;
    uchar *s = d->extract(i, &len);
    std::string got = s ? std::string((char *)s, strnlen((char *)s, 400)) : "";
    if (got != e || len != e.size()) {
      printf("  %s: extract(%zu): got %zu chars ...\"%s\" strLen=%u, expected "
             "%zu chars ...\"%s\"\n",
             what, i, got.size(),
             got.substr(got.size() > 6 ? got.size() - 6 : 0).c_str(), len,
             e.size(), e.substr(e.size() - 6).c_str());
      bad++;
    }
    delete[] s;
    std::vector<uchar> q(e.begin(), e.end());
    q.push_back(0);
    size_t id = d->locate(q.data(), e.size());
    if (id != i) {
      printf("  %s: locate(string %zu) = %zu\n", what, i, id);
      bad++;
    }
    fflush(stdout);
  }
  IteratorDictString *it = d->extractTable();
  size_t i = 0;
  while (it->hasNext() && i < v.size()) {
    uint len = 0;
    uchar *s = it->next(&len);
    if (v[i] != (char *)s || len != v[i].size()) {
      printf("  %s: extractTable() item %zu is wrong\n", what, i + 1);
      bad++;
    }
    delete[] s;
    i++;
  }
  delete it;
  return bad;
}

static int runCase(const char *name, std::vector<std::string> v, uint bs) {
  std::sort(v.begin(), v.end());
  printf("case %s: %zu strings, bucketsize %u\n", name, v.size(), bs);
  fflush(stdout);
  pid_t pid = fork();
  if (pid == 0) {
    StringDictionary *d = build(v, bs);
    int bad = check(d, v, "built");
    std::stringstream ss;
    d->save(ss);
    StringDictionary *l = StringDictionary::load(ss, 0);
    bad += check(l, v, "loaded");
    delete l;
    delete d;
    fflush(stdout);
    _exit(bad ? 1 : 0);
  }
  int st = 0;
  waitpid(pid, &st, 0);
  if (WIFSIGNALED(st)) {
    printf("  -> child killed by signal %d\n", WTERMSIG(st));
    return 1;
  }
  printf("  -> %s\n", WEXITSTATUS(st) ? "WRONG ANSWERS" : "ok");
  return WEXITSTATUS(st) != 0;
}

int main() {
  int bad = 0;

  // A) lcp(1,2) = 128 -> VByte 00 81 ; lcp(2,3) = 129 -> VByte 01 81
  std::vector<std::string> a;
  a.push_back(std::string(128, 'p') + "f");
  a.push_back(std::string(129, 'p') + "da");
  a.push_back(std::string(130, 'p') + "a");
  bad += runCase("A", a, 4);

  // B) many strings sharing exactly 128 chars with their predecessor
  std::vector<std::string> b;
  const char *t128[] = {"ys", "z", "zc", "zd", "zf", "zg", "zi", "zm", "zn", "zo", "zy"};
  const char *t127[] = {"y", "yd", "yq", "yt", "yx", "z", "zk", "zn", "zq", "zt", "zu", "zx"};
  for (const char *t : t128)
    b.push_back(std::string(128, 'x') + t);
  for (const char *t : t127)
    b.push_back(std::string(127, 'x') + t);
  bad += runCase("B", b, 4);

  printf("%s\n", bad ? "FAILED" : "OK");
  return bad ? 1 : 0;
}
