// R-RESAVE / R-KILLUSE: HASHHF loaded with option 2 (HashBdh) or 3 (HashBBdh) cannot be saved again
#include "common.h"
int main(int argc, char **argv) {
  uint opt = argc > 1 ? atoi(argv[1]) : 2;
  auto w = words(100);
  StringDictionaryHASHHF d(plain(w), 0, 25);
  std::stringstream s1;
  d.save(s1);
  s1.seekg(0);
  StringDictionary *l = StringDictionaryHASHHF::load(s1, opt);
  if (!l) { printf("load failed\n"); return 2; }
  std::stringstream s2;
  l->save(s2);          // option 3: heap-use-after-free in Hash::save (hash was deleted by HashBBdh::load)
  if (s2.str() == s1.str()) { printf("OK identical\n"); return 0; }
  s2.seekg(0);
  StringDictionary *l2 = StringDictionary::load(s2, 1);   // option 2: image now holds the compacted table
  int bad = 0;
  for (size_t i = 0; i < w.size(); i++) {
    try {
      if (!l2 || l2->locate((uchar *)w[i].c_str(), w[i].size()) == 0) bad++;
    } catch (const char *e) { bad++; }   // LogSequence::getField out of range
  }
  printf("FAIL option %u: re-saved image differs (%zu vs %zu bytes); %d of %zu members not found after reloading it\n",
         opt, s2.str().size(), s1.str().size(), bad, w.size());
  return 1;
}
