// R-SLACK: PFC constructor guard leaves 2*len bytes; a 1-char internal string with no shared prefix appends 3 bytes.
// The input fills the text buffer (32768*bucketsize bytes) to exactly capacity-2 bytes when such a string arrives, without
// ever triggering the growth guard (every earlier string satisfies bytes + 2*len <= capacity).
#include "common.h"
static size_t vb(size_t v) { size_t n = 1; while (v > 127) { v >>= 7; n++; } return n; }
int main() {
  const size_t cap = 32768 * 2;      // bucketsize 2
  const size_t target = cap - 4;     // bytes before the final pair "y" (header, 2 bytes), "z" (internal, lcp 0)
  auto key = [](unsigned x) { std::string k; k.push_back('a' + x / 676); k.push_back('a' + (x / 26) % 26); k.push_back('a' + x % 26); return k; };
  // keys "aab","aac",...: costs do not depend on the first (long) string's length
  std::vector<std::string> keys; size_t sum = 0; std::string prev = "aaa";
  for (unsigned x = 1;; x++) {
    std::string k = key(x);
    size_t n = keys.size() + 1;                         // position in the whole list (0 = the long first string)
    size_t c;
    if (n % 2 == 0) c = k.size() + 1;
    else { size_t l = 0; while (l < 3 && prev[l] == k[l]) l++; c = vb(l) + 3 - l + 1; }
    if (sum + c + 4 + 20000 > target && keys.size() % 2 == 1) break;
    keys.push_back(k); sum += c; prev = k;
  }
  size_t F = target - 4 - sum;                          // first string "aaa" + 'm'*F costs F + 4
  std::vector<std::string> w;
  w.push_back("aaa" + std::string(F, 'm'));
  for (auto &k : keys) w.push_back(k);
  w.push_back("y"); w.push_back("z");
  printf("%zu strings; first has %zu bytes; %zu bytes are in the buffer when \"z\" arrives (capacity %zu)\n", w.size(), F + 3, target + 2, cap);
  StringDictionaryPFC d(plain(w), 2);
  uint l; uchar *s = d.extract(w.size(), &l);
  printf("extract(last) = %s\n", s);
  return strcmp((char *)s, "z") != 0;
}
