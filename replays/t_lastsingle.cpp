// triage: RPDAC / HASHRPDAC when the last string compresses to a single symbol (DAC_VLS gets list length ic-2)
#include "common.h"
int main() {
  auto w = words(120, 5);
  w.push_back("z");                  // last string: a single terminal symbol
  int bad = 0;
  {
    StringDictionaryRPDAC d(plain(w));
    for (size_t i = 1; i <= w.size(); i++) { uint l; uchar *s = d.extract(i, &l); if (!s || w[i - 1] != (char *)s) { if (bad < 3) printf("RPDAC extract(%zu) = %s, expected %s\n", i, s ? (char *)s : "NULL", w[i - 1].c_str()); bad++; } else if (d.locate(s, l) != i) bad++; delete[] s; }
    printf("RPDAC: %d problems\n", bad);
  }
  int bad2 = 0;
  {
    StringDictionaryHASHRPDAC d(plain(w), 0, 25);
    for (size_t i = 0; i < w.size(); i++) { size_t id = d.locate((uchar *)w[i].c_str(), w[i].size()); if (id == 0) { if (bad2 < 3) printf("HASHRPDAC locate(%s) = 0\n", w[i].c_str()); bad2++; continue; } uint l; uchar *s = d.extract(id, &l); if (!s || w[i] != (char *)s) bad2++; delete[] s; }
    printf("HASHRPDAC: %d problems\n", bad2);
  }
  return (bad + bad2) != 0;
}
