// R-CLAMP: bucketsize < 2 is "replaced by 2 with a warning" in the member only; the constructor keeps using the raw parameter
#include "common.h"
#include <unistd.h>
template <class D> int run(const char *name, uint bs) {
  auto w = words(150);
  alarm(20);                       // bucketsize 0 never terminates (Reallocate of a zero-length buffer)
  D d(plain(w), bs);
  int bad = 0;
  for (size_t i = 1; i <= w.size(); i++) { uint l; uchar *s = d.extract(i, &l); if (!s || w[i - 1] != (char *)s) bad++; else if (d.locate(s, l) != i) bad++; delete[] s; }
  printf("%s(bucketsize=%u): %d problems\n", name, bs, bad);
  return bad;
}
int main(int argc, char **argv) {
  std::string k = argc > 1 ? argv[1] : "PFC"; uint bs = argc > 2 ? atoi(argv[2]) : 1;
  if (k == "PFC") return run<StringDictionaryPFC>("PFC", bs) != 0;
  if (k == "RPFC") return run<StringDictionaryRPFC>("RPFC", bs) != 0;
  if (k == "HTFC") return run<StringDictionaryHTFC>("HTFC", bs) != 0;
  return 2;
}
