// R-ZEROFILL: SSA::build_bwt leaves the last word of sampled_vector (when n % 32 == 31) and the last entry of
// suff_sample (when (n+1) % samplesuff == 0) uninitialised: the build reads them, and they end up in the image.
// mode 0: (n+1) % s == 0 -> build crashes / misbehaves.   mode 1: two builds on differently filled heaps give different images.
#include "common.h"
#include <new>
static unsigned char g_fill = 0;
void *operator new[](size_t n) { void *p = malloc(n ? n : 1); if (!p) throw std::bad_alloc(); memset(p, g_fill, n); return p; }
void operator delete[](void *p) noexcept { free(p); }
void operator delete[](void *p, size_t) noexcept { free(p); }
static std::string image(const std::vector<std::string> &w, uint s, unsigned char fill) {
  g_fill = fill;
  StringDictionaryFMINDEX d(plain(w), false, 20, s);
  std::stringstream ss; d.save(ss);
  g_fill = 0;
  return ss.str();
}
int main(int argc, char **argv) {
  int mode = argc > 1 ? atoi(argv[1]) : 1;
  auto w = words(200);
  size_t n = 2; for (auto &x : w) n += x.size() + 1;       // text length the SSA sees
  if (mode == 0) {
    uint s = 4; while ((n + 1) % s) { w.back() += "f"; n++; }
    printf("n=%zu s=%u (n+1)%%s=%zu\n", n, s, (n + 1) % s);
    std::string a = image(w, s, 0xAA);
    printf("OK built and saved %zu bytes\n", a.size());
    return 0;
  }
  int bad = 0;
  for (int pad = 0; pad < 32; pad++) {       // some text length in a window of 32 hits n % 32 == 31
    w.back() += "f";
    std::string a, b;
    try { a = image(w, 7, 0xAA); b = image(w, 7, 0x55); } catch (...) { continue; }
    size_t diff = 0; for (size_t i = 0; i < a.size() && i < b.size(); i++) diff += a[i] != b[i];
    if (diff || a.size() != b.size()) { printf("pad %d: images of two identical builds differ in %zu bytes\n", pad, diff); bad++; }
  }
  printf("%d of 32 text lengths give heap-dependent images\n", bad);
  return bad != 0;
}
