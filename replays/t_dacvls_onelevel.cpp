// d1: DAC_VLS::access() overruns its result buffer when the DAC has a single
// level (max_seq_length == 1).  Reached through StringDictionaryRPDAC (and
// StringDictionaryHASHRPDAC) whenever every string of the dictionary is
// represented by ONE Re-Pair symbol, e.g. a dictionary of one-character
// strings.  Valid input: sorted, distinct, NUL-terminated, bytes 'a','b','c'.
//
// Part 1 drives the dictionary, part 2 drives DAC_VLS directly.
// Exit status: 0 = all answers right, 1 = wrong answer detected
// (under ASan the program is stopped earlier by a heap-buffer-overflow report).
#include <StringDictionaryRPDAC.h>
#include <iterators/IteratorDictStringPlain.h>
#include <utils/DAC_VLS.h>
#include <cstdio>
#include <cstring>
#include <string>
#include <vector>

int main() {
  int bad = 0;

  // ---- part 2 first (pure DAC_VLS, no dictionary involved) ----
  {
    // three sequences of length 1: (5) (6) (7); -i terminates the i-th one.
    int list[] = {5, -1, 6, -2, 7, -3};
    DAC_VLS dac(list, 5 /* last terminator not counted, as RPDAC does */,
                3 /* bits per symbol */, 1 /* max sequence length */);
    for (uint id = 1; id <= 3; id++) {
      uint *seq = NULL;
      uint len = dac.access(id, &seq);
      if (len != 1 || seq[0] != 4 + id) {
        fprintf(stderr, "DAC_VLS::access(%u): length %u (want 1), first %u (want %u)\n",
                id, len, seq[0], 4 + id);
        bad++;
      }
      delete[] seq;
    }
  }

  // ---- part 1: the dictionary ----
  {
    std::vector<std::string> S = {"a", "b", "c"};
    size_t len = 0;
    for (auto &s : S) len += s.size() + 1;
    uchar *buf = new uchar[len];
    size_t p = 0;
    for (auto &s : S) { memcpy(buf + p, s.c_str(), s.size() + 1); p += s.size() + 1; }
    StringDictionary *d = new StringDictionaryRPDAC(new IteratorDictStringPlain(buf, len));
    for (size_t i = 1; i <= S.size(); i++) {
      uint l = 0;
      uchar *s = d->extract(i, &l);
      if (!s || l != S[i - 1].size() || memcmp(s, S[i - 1].c_str(), l)) {
        fprintf(stderr, "RPDAC extract(%zu) = \"%s\" (len %u), want \"%s\"\n", i,
                s ? (char *)s : "NULL", l, S[i - 1].c_str());
        bad++;
      }
      delete[] s;
    }
    delete d;
  }
  fprintf(stderr, bad ? "FAIL (%d wrong answers)\n" : "OK\n", bad);
  return bad != 0;
}
