// R-KILLUSE / R-SAVEPURE: DecodingTree::save deletes partree; a second save (or save after load) uses freed memory
#include "common.h"
static std::vector<std::string> skewed() {
  std::vector<std::string> v;
  unsigned x = 12345;
  for (int i = 0; i < 30000; i++) {
    std::string s;
    x = x * 1103515245u + 12345u;
    int len = 6 + (x >> 16) % 20;
    for (int j = 0; j < len; j++) {
      x = x * 1103515245u + 12345u;
      unsigned r = x >> 8;
      int k = 0;
      while ((r & 1) && k < 23) { r >>= 1; k++; }   // geometric over 24 symbols
      s.push_back('a' + k);
    }
    v.push_back(s);
  }
  std::string all;
  for (int k = 0; k < 24; k++) all.push_back('a' + k);
  v.push_back(all);
  std::sort(v.begin(), v.end());
  v.erase(std::unique(v.begin(), v.end()), v.end());
  return v;
}
int main() {
  auto w = skewed();
  StringDictionaryHTFC d(plain(w), 8);
  std::stringstream s1, s2;
  d.save(s1);
  d.save(s2);
  if (s1.str() != s2.str()) { printf("FAIL: second save differs\n"); return 1; }
  s1.seekg(0);
  StringDictionary *l = StringDictionary::load(s1, 0);
  std::stringstream s3;
  l->save(s3);
  if (s3.str() != s2.str()) { printf("FAIL: save after load differs\n"); return 1; }
  printf("OK %zu strings, image %zu bytes, three saves identical\n", w.size(), s2.str().size());
  delete l;
  return 0;
}
