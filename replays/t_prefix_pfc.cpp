// triage aid: brute-force comparison of locatePrefix on PFC (validates the searchPrefix repair)
#include "common.h"
int main() {
  int bad = 0, tot = 0;
  for (unsigned seed = 1; seed <= 30; seed++) {
    auto w = words(40 + seed * 3, seed);
    for (uint bs : {2u, 3u, 4u, 8u, 16u}) {
      StringDictionaryPFC d(plain(w), bs);
      std::vector<std::string> qs;
      for (auto &s : w) { for (size_t l = 1; l <= s.size(); l++) qs.push_back(s.substr(0, l)); qs.push_back(s + "a"); qs.push_back(s.substr(0, s.size() - 1) + "g"); }
      qs.push_back("A"); qs.push_back("zz");
      for (auto &q : qs) {
        if (q.empty()) continue;
        size_t lo = 0, hi = 0;
        for (size_t i = 0; i < w.size(); i++) if (w[i].compare(0, q.size(), q) == 0) { if (!lo) lo = i + 1; hi = i + 1; }
        IteratorDictID *it = d.locatePrefix((uchar *)q.c_str(), q.size());
        std::vector<size_t> got; while (it->hasNext()) got.push_back(it->next());
        delete it;
        std::vector<size_t> exp; if (lo) for (size_t i = lo; i <= hi; i++) exp.push_back(i);
        tot++;
        if (got != exp) { if (bad < 5) printf("seed %u bs %u q=%s expected [%zu..%zu] got %zu ids first %zu\n", seed, bs, q.c_str(), lo, hi, got.size(), got.empty() ? 0 : got[0]); bad++; }
      }
    }
  }
  printf("%d mismatches of %d prefix queries\n", bad, tot);
  return bad != 0;
}
