// R-SHIFT: LogSequence::set_field at width 64 shifts by 64: the clear-mask is 0 and a second store ORs into the field
#include "utils/LogSequence.h"
#include <cstdio>
int main() {
  LogSequence s(64, 4);
  s.setField(1, 0xF0);
  s.setField(1, 0x0F);
  size_t v = s.getField(1);
  printf("after setField(1,0xF0); setField(1,0x0F): getField(1) = 0x%zx (expected 0xf)\n", v);
  return v != 0x0F;
}
