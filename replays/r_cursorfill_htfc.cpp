// R-CURSORFILL (HTFC / HHTFC): when the last string is a bucket header (elements % bucketsize == 1) the constructor left the
// loop through a `break` that skipped the store every other path makes, and the final bytesStrings++ put a never-written byte
// into the stream.  extract() of every string on the built and the reloaded dictionary, with a poisoned heap.
// (locate() on a loaded HTFC has its own out-of-bounds header comparison, DESIGN 6.3, and is left out.)
#include "common.h"
#include "StringDictionaryHTFC.h"
#include "StringDictionaryHHTFC.h"
#include <cstdlib>
void *operator new(size_t n) { void *p = malloc(n + 8); if (!p) abort(); memset(p, 0xA5, n + 8); return p; }
void operator delete(void *p) noexcept { free(p); }
void operator delete(void *p, size_t) noexcept { free(p); }
template <class D> static int check(const char *name, int n, int bs) {
  auto w = words(n);
  size_t total; IteratorDictStringPlain *it = plain(w, &total);
  D *d = new D(it, bs);
  std::stringstream img; d->save(img);
  StringDictionary *l = StringDictionary::load(img, 1);
  int bad = 0;
  for (StringDictionary *x : {(StringDictionary *)d, l})
    for (size_t i = 1; i <= w.size(); i++) {
      uint len; uchar *s = x->extract(i, &len);
      if (!s || w[i - 1] != std::string((char *)s, len)) bad++;
      delete[] s;
    }
  printf("%s n=%zu bucketsize=%d: %d wrong answers\n", name, w.size(), bs, bad);
  return bad;
}
int main() {
  int bad = 0;
  for (int n : {5, 9, 65, 1001}) bad += check<StringDictionaryHTFC>("HTFC", n, 4);
  bad += check<StringDictionaryHHTFC>("HHTFC", 1001, 4);
  return bad != 0;
}
