// R-WINDOW: StringDictionaryFMINDEX::extractPrefix passes (left, count) to an iterator whose protocol is (first, end)
#include "common.h"
int main() {
  auto w = words(200);
  StringDictionaryFMINDEX d(plain(w), false, 20, 0);
  int bad = 0, tried = 0;
  for (char c = 'a'; c <= 'f'; c++) {
    uchar q[2] = {(uchar)c, 0};
    IteratorDictID *ids = d.locatePrefix(q, 1);
    size_t n = 0; while (ids->hasNext()) { ids->next(); n++; }
    delete ids;
    IteratorDictString *it = d.extractPrefix(q, 1);
    size_t m = 0;
    if (it) { while (it->hasNext()) { uint l; uchar *s = it->next(&l); if (s[0] != (uchar)c) bad++; delete[] s; m++; } delete it; }
    tried++;
    if (n != m) { printf("prefix %c: locatePrefix yields %zu ids, extractPrefix yields %zu strings\n", c, n, m); bad++; }
  }
  printf("%d problems in %d prefixes\n", bad, tried);
  return bad != 0;
}
