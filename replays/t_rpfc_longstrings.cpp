// d8: StringDictionaryRPFC / StringDictionaryRPHTFC constructors assume that a
// bucket never takes more than bucketsize*1000 bytes of the compressed string
// stream.  Long strings overflow the stream buffer (heap write overflow).
//
// 40 pseudo-random strings of 5000 chars, bucketsize 2.
// usage: repro [RPFC|RPHTFC]      (default RPFC)
// exit status 0 = built, and (RPFC) every string extracted correctly.
#include <StringDictionary.h>

#include <cstdio>
#include <cstring>
#include <string>
#include <vector>

int main(int argc, char **argv) {
  bool rphtfc = argc > 1 && strcmp(argv[1], "RPHTFC") == 0;
  const unsigned N = 40, LEN = 5000;
  std::vector<std::string> v;
  unsigned x = 12345;
  for (unsigned i = 0; i < N; i++) {
    std::string s(1, (char)('0' + i)); // first char keeps them sorted
    for (unsigned j = 1; j < LEN; j++) {
      x = x * 1103515245u + 12345u;
      s += (char)('a' + (x >> 16) % 26);
    }
    v.push_back(s);
  }
  size_t total = N * (LEN + 1);
  uchar *buf = new uchar[total];
  for (unsigned i = 0; i < N; i++)
    memcpy(buf + i * (LEN + 1), v[i].c_str(), LEN + 1);
  IteratorDictStringPlain *it = new IteratorDictStringPlain(buf, total);
  StringDictionary *d;
  if (rphtfc)
    d = new StringDictionaryRPHTFC(it, 2);
  else
    d = new StringDictionaryRPFC(it, 2);
  printf("built\n");
  fflush(stdout);
  int bad = 0;
  if (!rphtfc) { // (RPHTFC decoding has other, already known, problems)
    for (unsigned i = 1; i <= N; i++) {
      uint len = 0;
      uchar *s = d->extract(i, &len);
      if (!s || v[i - 1] != (char *)s || len != LEN) {
        printf("extract(%u) wrong\n", i);
        bad++;
      }
      delete[] s;
    }
  }
  delete d;
  printf("%s\n", bad ? "FAILED" : "OK");
  return bad ? 1 : 0;
}
