// R-PATTERN: RePair::extractStringAndCompareRP returns early with the pattern's NUL overwritten
#include "common.h"
int main() {
  auto w = words(120);
  StringDictionaryHASHRPF d(plain(w), 0, 25);
  int bad = 0, tried = 0;
  for (int a = 'a'; a <= 'h'; a++)
    for (int b = 'a'; b <= 'h'; b++)
      for (int c = 0; c <= 'h'; c = (c == 0 ? 'a' : c + 1)) {
        uchar q[8] = {(uchar)a, (uchar)b, (uchar)c, 0, 0, 0, 0, 0};
        uint len = strlen((char *)q);
        uchar copy[8];
        memcpy(copy, q, 8);
        d.locate(q, len);
        tried++;
        if (memcmp(copy, q, 8) != 0) bad++;
      }
  printf("%d of %d patterns modified by locate\n", bad, tried);
  return bad ? 1 : 0;
}
