// d10: StringDictionaryHTFC constructor - the look-ahead that completes the last
// 16-bit chunk of a bucket header with "the bits that follow in the stream"
// forgets the padding bits at the end of the bucket (and loses count of the
// strings it has read).  When a whole bucket fits in that chunk (tiny buckets
// of very short strings) the chunk is indexed with the wrong bits and the
// header cannot be decoded.
//
// 5000 distinct strings of 1-2 random bytes (2..0xFE), bucketsize 2.
// exit status 0 = every extract()/locate() answer is right.
#include <StringDictionary.h>

#include <cstdio>
#include <cstring>
#include <random>
#include <set>
#include <string>
#include <vector>

int main() {
  std::mt19937 rng(1); // (std::mt19937 is fully specified: same strings everywhere)
  std::set<std::string> S;
  while (S.size() < 5000) {
    std::string s;
    int l = 1 + (int)(rng() % 2u);
    for (int i = 0; i < l; i++)
      s += (char)(2 + (int)(rng() % 253u));
    S.insert(s);
  }
  std::vector<std::string> v(S.begin(), S.end());

  size_t total = 0;
  for (auto &s : v)
    total += s.size() + 1;
  uchar *buf = new uchar[total];
  size_t p = 0;
  for (auto &s : v) {
    memcpy(buf + p, s.c_str(), s.size() + 1);
    p += s.size() + 1;
  }
  StringDictionary *d =
      new StringDictionaryHTFC(new IteratorDictStringPlain(buf, total), 2);

  int bad = 0;
  for (size_t i = 1; i <= v.size(); i++) {
    if (i % 500 == 1) {
      printf("ids %zu...\n", i);
      fflush(stdout);
    }
    uint len = 0;
    uchar *s = d->extract(i, &len);
    bool ok = s && v[i - 1] == (char *)s && len == v[i - 1].size();
    delete[] s;
    std::vector<uchar> q(v[i - 1].begin(), v[i - 1].end());
    q.push_back(0);
    size_t id = d->locate(q.data(), v[i - 1].size());
    if (!ok || id != i) {
      printf("id %zu: extract %s, locate -> %zu\n", i, ok ? "ok" : "WRONG", id);
      bad++;
    }
  }
  delete d;
  printf("%s (%d wrong)\n", bad ? "FAILED" : "OK", bad);
  return bad ? 1 : 0;
}
