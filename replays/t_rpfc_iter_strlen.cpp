// d5: IteratorDictStringRPFC (extractTable()/extractPrefix() of
// StringDictionaryRPFC) reports a string length that is one too big for every
// string that is not the first of its bucket.
//
// 6 strings, bucketsize 4.  exit status 0 = every reported length is right.
#include <StringDictionary.h>

#include <cstdio>
#include <cstring>

static const char *STRS[] = {"alpha", "alphabet", "beta", "betamax", "gamma", "gammaray"};
static const unsigned N = 6;

static int scan(IteratorDictString *it, unsigned first, const char *what) {
  int bad = 0;
  unsigned i = first;
  while (it->hasNext()) {
    uint len = 0;
    uchar *s = it->next(&len);
    bool ok = i < N && strcmp((char *)s, STRS[i]) == 0 && len == strlen(STRS[i]);
    printf("%s: \"%s\" strLen=%u %s\n", what, (char *)s, len, ok ? "" : "<-- WRONG");
    if (!ok)
      bad++;
    delete[] s;
    i++;
  }
  delete it;
  return bad;
}

int main() {
  size_t total = 0;
  for (unsigned i = 0; i < N; i++)
    total += strlen(STRS[i]) + 1;
  uchar *buf = new uchar[total];
  size_t p = 0;
  for (unsigned i = 0; i < N; i++) {
    memcpy(buf + p, STRS[i], strlen(STRS[i]) + 1);
    p += strlen(STRS[i]) + 1;
  }
  StringDictionary *d =
      new StringDictionaryRPFC(new IteratorDictStringPlain(buf, total), 4);

  int bad = 0;
  // extract() is right ...
  for (unsigned i = 1; i <= N; i++) {
    uint len = 0;
    uchar *s = d->extract(i, &len);
    if (strcmp((char *)s, STRS[i - 1]) != 0 || len != strlen(STRS[i - 1])) {
      printf("extract(%u) wrong\n", i);
      bad++;
    }
    delete[] s;
  }
  // ... the iterators are not
  bad += scan(d->extractTable(), 0, "extractTable");
  uchar pref[] = "beta";
  bad += scan(d->extractPrefix(pref, 4), 2, "extractPrefix(beta)");
  delete d;
  printf("%s (%d wrong)\n", bad ? "FAILED" : "OK", bad);
  return bad ? 1 : 0;
}
