#!/bin/bash
# Triage aid (NOT part of any check): builds the library sources of a libCSD tree with ASan into a scratch
# dir and links one driver against them.  usage: build.sh <repo-dir> <driver.cpp> <out-exe> [extra flags]
set -e
REPO=$1; DRV=$(realpath $2); OUT=$3; shift 3
S=${REPLAY_SCRATCH:-/tmp/replay_$(echo $REPO | md5sum | cut -c1-8)}
mkdir -p $S/obj
cd $REPO
SRCS=$(ls *.cpp FMIndex/*.cpp Hash/*.cpp Huffman/*.cpp HuTucker/*.cpp RePair/*.cpp RePair/Coder/*.cpp utils/*.cpp utils/Coder/*.cpp XBW/*.cpp $(find libcds/src -name '*.cpp') | grep -v '^Build.cpp\|^Test.cpp')
FLAGS="-std=gnu++17 -g -O1 -fsanitize=address,undefined -fno-omit-frame-pointer -I$REPO -I$REPO/libcds/includes -w $*"
for f in $SRCS; do
  o=$S/obj/$(echo $f | tr '/' '_').o
  if [ ! -f $o ] || [ $f -nt $o ] || [ -n "$(find $REPO -name '*.h' -newer $o -print -quit 2>/dev/null)" ] || [ -n "$(find $REPO -name '*.hpp' -newer $o -print -quit 2>/dev/null)" ]; then echo "$f $o"; fi
done | xargs -r -P16 -n2 sh -c "clang++ $FLAGS -c \$0 -o \$1"
rm -f $S/lib.a; ar rcs $S/lib.a $S/obj/*.o
clang++ $FLAGS $DRV $S/lib.a -lpthread -o $OUT
