// helpers shared by the triage drivers
#include "StringDictionary.h"
#include "StringDictionaryHASHRPDACBlocks.h"
#include "iterators/IteratorDictStringPlain.h"
#include <sstream>
#include <string>
#include <vector>
#include <algorithm>
#include <cstring>
#include <cstdio>
static inline IteratorDictStringPlain *plain(const std::vector<std::string> &v, size_t *total = nullptr) {
  size_t n = 0;
  for (auto &s : v) n += s.size() + 1;
  uchar *buf = new uchar[n + 1];
  size_t p = 0;
  for (auto &s : v) { memcpy(buf + p, s.c_str(), s.size() + 1); p += s.size() + 1; }
  if (total) *total = n;
  return new IteratorDictStringPlain(buf, n);
}
static inline std::vector<std::string> words(int n, unsigned seed = 1) {
  std::vector<std::string> v;
  unsigned x = seed;
  for (int i = 0; i < n * 2; i++) {
    x = x * 1103515245u + 12345u;
    int len = 1 + (x >> 16) % 12;
    std::string s;
    for (int j = 0; j < len; j++) { x = x * 1103515245u + 12345u; s.push_back('a' + (x >> 16) % 6); }
    v.push_back(s);
  }
  std::sort(v.begin(), v.end());
  v.erase(std::unique(v.begin(), v.end()), v.end());
  if ((int)v.size() > n) v.resize(n);
  return v;
}
