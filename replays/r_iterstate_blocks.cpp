// R-ITERSTATE: IteratorDictStringHRPDACBlocks never sets the inherited `scanneable`, which IteratorDictString::size() returns:
// the table iterator of a HASHRPDACBlocks dictionary reports an indeterminate size (the other kinds' table iterators report the
// number of strings they will yield).
#include "common.h"
#include <cstdlib>
void *operator new(size_t n) { void *p = malloc(n); if (!p) abort(); memset(p, 0xA5, n); return p; }
void operator delete(void *p) noexcept { free(p); }
void operator delete(void *p, size_t) noexcept { free(p); }
int main() {
  auto w = words(300);
  size_t total;
  IteratorDictStringPlain *it = plain(w, &total);
  StringDictionaryHASHRPDACBlocks d(it, total, 25, 512, 2);
  IteratorDictString *t = d.extractTable();
  size_t n = 0;
  uint reported = t->size();
  while (t->hasNext()) { uint l; uchar *s = t->next(&l); delete[] s; n++; }
  delete t;
  printf("extractTable yields %zu strings, size() reported %u\n", n, reported);
  return reported != n;
}
