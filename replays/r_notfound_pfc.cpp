// R-NOTFOUND: StringDictionaryPFC::searchPrefix never returns NORESULT -> locatePrefix reports matches for an absent prefix
#include "common.h"
int main() {
  std::vector<std::string> w;
  for (char c = 'b'; c <= 'z'; c++) if (c != 'c') w.push_back(std::string("a") + c + "x");
  w.insert(w.begin(), "ab");
  std::sort(w.begin(), w.end());
  StringDictionaryPFC d(plain(w), 8);
  const char *q = "ac";
  IteratorDictID *it = d.locatePrefix((uchar *)q, 2);
  int n = 0;
  while (it->hasNext()) { size_t id = it->next(); n++; uint l; uchar *s = d.extract(id, &l); printf("  locatePrefix(\"ac\") -> id %zu = %s\n", id, s); delete[] s; }
  delete it;
  if (n) { printf("FAIL: %d members reported for a prefix no member has\n", n); return 1; }
  printf("OK\n");
  return 0;
}
