// d9: StringDictionaryRPFC cannot be built from a single string: the
// constructor computes "position of the last symbol" = 0 - 1 in a size_t and
// walks an empty vector until it crashes.
// exit status 0 = built, saved, loaded and queried correctly.
#include <StringDictionary.h>

#include <cstdio>
#include <cstring>
#include <sstream>

static int check(StringDictionary *d, const char *what) {
  int bad = 0;
  uint len = 0;
  uchar *s = d->extract(1, &len);
  if (!s || strcmp((char *)s, "hello") != 0 || len != 5) {
    printf("%s: extract(1) wrong\n", what);
    bad++;
  }
  delete[] s;
  uchar q1[] = "hello", q2[] = "help", q3[] = "he";
  if (d->locate(q1, 5) != 1) {
    printf("%s: locate(hello) wrong\n", what);
    bad++;
  }
  if (d->locate(q2, 4) != 0) {
    printf("%s: locate(help) wrong\n", what);
    bad++;
  }
  IteratorDictID *it = d->locatePrefix(q3, 2);
  if (!it->hasNext() || it->next() != 1 || it->hasNext()) {
    printf("%s: locatePrefix(he) wrong\n", what);
    bad++;
  }
  delete it;
  IteratorDictString *is = d->extractTable();
  if (!is->hasNext()) {
    printf("%s: extractTable() empty\n", what);
    bad++;
  } else {
    s = is->next(&len);
    if (strcmp((char *)s, "hello") != 0 || len != 5 || is->hasNext()) {
      printf("%s: extractTable() wrong\n", what);
      bad++;
    }
    delete[] s;
  }
  delete is;
  return bad;
}

int main() {
  uchar *buf = new uchar[6];
  memcpy(buf, "hello", 6);
  StringDictionary *d =
      new StringDictionaryRPFC(new IteratorDictStringPlain(buf, 6), 4);
  printf("built\n");
  fflush(stdout);
  int bad = check(d, "built");
  std::stringstream ss;
  d->save(ss);
  StringDictionary *l = StringDictionary::load(ss, 0);
  bad += check(l, "loaded");
  delete l;
  delete d;
  printf("%s\n", bad ? "FAILED" : "OK");
  return bad ? 1 : 0;
}
