// d6: StringDictionaryHTFC (same code in HHTFC and RPHTFC): locate() and
// locatePrefix()/extractPrefix() compare / copy "encoded length of the query"
// bytes starting at the encoded header of a bucket.  For the last buckets of a
// LOADED dictionary (textStrings has exactly bytesStrings bytes) this reads
// past the end of the heap block whenever the query is longer than what is
// left of the stream.
//
// 4 strings {a,b,c,d}, bucketsize 2, saved + loaded; two queries that are not
// in the dictionary.  The answers are right (0 / empty), the memory accesses
// are not: run under valgrind or link with an ASan build of the library.
// exit status 0 = right answers (and no report from valgrind/ASan).
#include <StringDictionary.h>

#include <cstdio>
#include <cstring>
#include <sstream>
#include <string>

int main() {
  uchar *buf = new uchar[8];
  memcpy(buf, "a\0b\0c\0d\0", 8);
  StringDictionary *d =
      new StringDictionaryHTFC(new IteratorDictStringPlain(buf, 8), 2);
  std::stringstream ss;
  d->save(ss);
  delete d;
  StringDictionary *l = StringDictionary::load(ss, 0);

  int bad = 0;
  std::string q = "d" + std::string(300, 'z'); // valid string, not a member
  uchar *qs = new uchar[q.size() + 1];
  memcpy(qs, q.c_str(), q.size() + 1);

  size_t id = l->locate(qs, q.size()); // memcmp(header, query, ~300)
  printf("locate -> %zu (expected 0)\n", id);
  bad += id != 0;

  IteratorDictID *it = l->locatePrefix(qs, q.size()); // memcpy(tmp, header, ~300)
  bool any = it->hasNext();
  printf("locatePrefix -> %s (expected empty)\n", any ? "non-empty" : "empty");
  bad += any;
  delete it;

  IteratorDictString *is = l->extractPrefix(qs, q.size());
  printf("extractPrefix -> %s (expected NULL)\n", is ? "iterator" : "NULL");
  bad += is != NULL;
  delete is;

  delete[] qs;
  delete l;
  printf("%s\n", bad ? "FAILED" : "answers OK");
  return bad ? 1 : 0;
}
