// d4: StringDictionaryHASHRPF::locate() finds strings that are not in the
// dictionary.  The members are stored one after the other, each followed by
// the terminator byte maxchar = (largest byte of the dictionary) + 1.  The
// comparison in RePair::extractStringAndCompareRP() does not stop at the
// stored terminator, so the absent string  X + maxchar + Y  is "found" (with
// the id of X) whenever Y is stored right after X, and  X + maxchar  makes the
// comparison run past the end of the stored sequence when X is the last one.
#include <cstdio>
#include <cstring>
#include <sstream>
#include <string>
#include <vector>

#include "StringDictionary.h"

static unsigned long loc(StringDictionary *d, const std::string &s) {
  std::vector<uchar> q(s.begin(), s.end());
  q.push_back(0);
  q.push_back(0);
  return d->locate(q.data(), s.size());
}

int main() {
  // sorted, distinct; the largest byte is 't', so the terminator is 'u'
  std::vector<std::string> v = {"alpha", "beta", "delta", "gamma"};
  size_t len = 0;
  for (auto &s : v) len += s.size() + 1;
  uchar *buf = new uchar[len + 1];
  size_t p = 0;
  for (auto &s : v) {
    memcpy(buf + p, s.c_str(), s.size() + 1);
    p += s.size() + 1;
  }
  buf[len] = 0;
  StringDictionary *built =
      new StringDictionaryHASHRPF(new IteratorDictStringPlain(buf, len), len, 20);
  std::stringstream img;
  built->save(img);

  int bad = 0;
  for (int opt = 0; opt <= 3; opt++) { // 0: as built, 1..3: loaded with option
    StringDictionary *d = built;
    if (opt > 0) {
      img.clear();
      img.seekg(0);
      d = StringDictionary::load(img, opt);
    }
    for (auto &x : v) {
      if (loc(d, x) == 0) {
        printf("opt %d: member '%s' not found\n", opt, x.c_str());
        bad++;
      }
      for (auto &y : v) {
        std::string q = x + "u" + y; // 'u' does not occur in the dictionary
        unsigned long id = loc(d, q);
        if (id != 0) {
          printf("opt %d: locate(\"%s\") = %lu, but the string is absent\n",
                 opt, q.c_str(), id);
          bad++;
        }
      }
      // with the last stored string this reads past the stored sequence
      std::string q = x + "u";
      unsigned long id = loc(d, q);
      if (id != 0) {
        printf("opt %d: locate(\"%s\") = %lu, but the string is absent\n", opt,
               q.c_str(), id);
        bad++;
      }
    }
    if (opt > 0) delete d;
  }
  delete built;
  printf("%d wrong answers\n", bad);
  fflush(stdout);

  {
    // Memory-safety side of the same defect (seen by ASan / valgrind only):
    // one member, query = member + terminator.  The comparison goes on after
    // the stored terminator and reads the field after the last one of the
    // Re-Pair sequence; with this length the sequence fills its last 64-bit
    // word, so the read leaves the heap block.
    std::string x(66205, 'a'); // terminator is 'b'
    uchar *b1 = new uchar[x.size() + 2];
    memcpy(b1, x.c_str(), x.size() + 1);
    b1[x.size() + 1] = 0;
    StringDictionaryHASHRPF one(new IteratorDictStringPlain(b1, x.size() + 1),
                                x.size() + 1, 3);
    unsigned long id = loc(&one, x + "b");
    if (id != 0) {
      printf("locate(member + terminator) = %lu, but the string is absent\n",
             id);
      bad++;
    }
  }
  return bad != 0;
}
