// d2: a decoding-table entry cannot hold 16 symbols.  When a character gets a
// 1-bit Huffman code (it is more frequent than everything else together,
// roughly) and occurs 16 or more times in a row, the 16-bit window holds 16
// symbols; DecodingTable::encodeInfo() keeps the length in four bits, the
// entry is stored with length 0 and the decoder takes it for a pointer to a
// decoding subtree.  extract() of HASHHF and HASHUFFDAC then crashes.
//
// usage: repro [hf|uffdac]    (default: both, HASHHF first)
#include <cstdio>
#include <cstring>
#include <string>
#include <vector>

#include "StringDictionary.h"

static int run(bool dac) {
  // sorted, distinct, NUL-terminated, bytes in 0x02..0xFE
  std::vector<std::string> v = {std::string(200, 'a'), "abc", "b"};
  size_t len = 0;
  for (auto &s : v) len += s.size() + 1;
  uchar *buf = new uchar[len + 1];
  size_t p = 0;
  for (auto &s : v) {
    memcpy(buf + p, s.c_str(), s.size() + 1);
    p += s.size() + 1;
  }
  buf[len] = 0;
  IteratorDictStringPlain *it = new IteratorDictStringPlain(buf, len);
  StringDictionary *d =
      dac ? (StringDictionary *)new StringDictionaryHASHUFFDAC(it, len, 20)
          : (StringDictionary *)new StringDictionaryHASHHF(it, len, 20);
  const char *name = dac ? "HASHUFFDAC" : "HASHHF";
  int bad = 0;
  for (auto &s : v) {
    std::vector<uchar> q(s.begin(), s.end());
    q.push_back(0);
    unsigned long id = d->locate(q.data(), s.size());
    printf("%s: locate(<%lu chars>) = %lu, extracting...\n", name,
           (unsigned long)s.size(), id);
    fflush(stdout);
    uint l = 0;
    uchar *e = id ? d->extract(id, &l) : nullptr;
    if (!e || l != s.size() || memcmp(e, s.data(), s.size()) != 0) {
      printf("%s: extract(%lu) does not give the string back (length %u)\n",
             name, id, l);
      bad++;
    }
    delete[] e;
  }
  delete d;
  return bad;
}

int main(int argc, char **argv) {
  int bad = 0;
  if (argc < 2 || !strcmp(argv[1], "hf")) bad += run(false);
  if (argc < 2 || !strcmp(argv[1], "uffdac")) bad += run(true);
  printf("%d wrong answers\n", bad);
  return bad != 0;
}
