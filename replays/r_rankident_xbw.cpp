// d3: StringDictionaryXBW::locateRank()/extractRank() answer with the XBW id
// order, which is not the alphabetical order the API promises.
#include <StringDictionary.h>
#include <iterators/IteratorDictStringPlain.h>

#include <cstdio>
#include <cstring>
#include <sstream>
#include <string>
#include <vector>

int main() {
  std::vector<std::string> v = {"ab", "abc", "b", "ba", "cab"}; // sorted, distinct
  size_t tot = 0;
  for (auto &s : v) tot += s.size() + 1;
  unsigned char *arr = new unsigned char[tot + 1];
  size_t p = 0;
  for (auto &s : v) { memcpy(arr + p, s.c_str(), s.size() + 1); p += s.size() + 1; }
  arr[tot] = 0;
  IteratorDictStringPlain *it = new IteratorDictStringPlain(arr, tot);
  StringDictionaryXBW *built = new StringDictionaryXBW(it);
  delete it;
  std::stringstream img;
  built->save(img);
  delete built;
  StringDictionary *d = StringDictionary::load(img, 0);
  if (!d) return 2;

  int bad = 0;
  for (size_t r = 1; r <= v.size(); r++) {
    const std::string &want = v[r - 1]; // the r-th string in alphabetical order
    uint l = 0;
    unsigned char *s = d->extractRank(r, &l);
    std::string got = s ? (char *)s : "(null)";
    delete[] s;
    size_t idWant = d->locate((unsigned char *)want.c_str(), want.size());
    size_t idGot = d->locateRank(r);
    printf("rank %zu: extractRank -> \"%s\" (want \"%s\")   locateRank -> %zu (want %zu)\n",
           r, got.c_str(), want.c_str(), idGot, idWant);
    if (got != want || idGot != idWant) bad++;
  }
  {
    uint l = 7;
    if (d->extractRank(0, &l) != NULL || d->extractRank(v.size() + 1, &l) != NULL) { printf("out-of-range rank not NULL\n"); bad++; }
  }
  delete d;
  if (bad) { printf("FAIL: %d rank queries wrong\n", bad); return 1; }
  printf("OK\n");
  return 0;
}
