// R-GROW: RPFC / RPHTFC guard the growth of rpdict with `if`: one doubling is not enough for few, long strings
#include "common.h"
int main(int argc, char **argv) {
  std::vector<std::string> w;
  for (int i = 0; i < 6; i++) w.push_back(std::string(1, 'a' + i) + std::string(200, 'b' + i));
  std::sort(w.begin(), w.end());
  int bad = 0;
  if (argc > 1 && std::string(argv[1]) == "RPHTFC") {
    StringDictionaryRPHTFC d(plain(w), 4);
    for (size_t i = 1; i <= w.size(); i++) { uint l; uchar *s = d.extract(i, &l); if (!s || w[i - 1] != (char *)s) bad++; delete[] s; }
  } else {
    StringDictionaryRPFC d(plain(w), 4);
    for (size_t i = 1; i <= w.size(); i++) { uint l; uchar *s = d.extract(i, &l); if (!s || w[i - 1] != (char *)s) bad++; delete[] s; }
  }
  printf("%d problems\n", bad);
  return bad != 0;
}
