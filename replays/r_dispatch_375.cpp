// R-DISPATCH: BitSequence::load has no arm for BitSequence375 (tag 7)
#include <libcdsBasics.h>
#include <BitSequence.h>
#include <BitSequenceBuilder.h>
#include <sstream>
#include <cstdio>
using namespace cds_static;
int main() {
  uint bm[9] = {0x12345678u, 0xdeadbeefu, 0, 0xffffffffu, 5, 6, 7, 8, 0};  // the constructor reads n/W+1 words
  BitSequence375 b(bm, 256);
  std::stringstream ss;
  b.save(ss);
  ss.seekg(0);
  BitSequence *l = BitSequence::load(ss);
  if (!l) { printf("FAIL: BitSequence::load returned NULL for a BitSequence375 image\n"); return 1; }
  for (size_t i = 0; i < 256; i++) if (l->rank1(i) != b.rank1(i)) { printf("FAIL rank %zu\n", i); return 1; }
  printf("OK\n");
  return 0;
}
