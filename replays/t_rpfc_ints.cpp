// d4: StringDictionaryRPFC / StringDictionaryRPHTFC constructors write past the
// end of the int array that collects the internal strings for Re-Pair
// ("rpdict") when the strings are short with respect to the bucket size.
//
// 16 one-char strings "a".."p", bucketsize 16: the bucket needs 15*4 = 60 ints,
// the constructor makes sure that only bucketsize*maxlength = 32 are available.
//
// usage: repro [RPFC|RPHTFC]      (default RPFC)
// HEAD: glibc aborts ("malloc(): corrupted top size" / "free(): invalid ..."),
//       ASan: heap-buffer-overflow WRITE in the constructor.
// exit status 0 = dictionary built and all strings extracted correctly.
#include <StringDictionary.h>

#include <cstdio>
#include <cstring>
#include <string>

int main(int argc, char **argv) {
  bool rphtfc = argc > 1 && strcmp(argv[1], "RPHTFC") == 0;
  const unsigned N = 16, BUCKETSIZE = 16;
  uchar *buf = new uchar[2 * N];
  for (unsigned i = 0; i < N; i++) {
    buf[2 * i] = 'a' + i;
    buf[2 * i + 1] = 0;
  }
  IteratorDictStringPlain *it = new IteratorDictStringPlain(buf, 2 * N);
  StringDictionary *d;
  if (rphtfc)
    d = new StringDictionaryRPHTFC(it, BUCKETSIZE);
  else
    d = new StringDictionaryRPFC(it, BUCKETSIZE);
  printf("built\n");
  fflush(stdout);

  int bad = 0;
  if (!rphtfc) { // (RPHTFC decoding has other, already known, problems)
    for (unsigned i = 1; i <= N; i++) {
      uint len = 0;
      uchar *s = d->extract(i, &len);
      if (!s || len != 1 || s[0] != 'a' + i - 1 || s[1] != 0) {
        printf("extract(%u) wrong\n", i);
        bad++;
      }
      delete[] s;
    }
  }
  delete d;
  printf("%s\n", bad ? "FAILED" : "OK");
  return bad ? 1 : 0;
}
