// R-COPYBOUND: IteratorDictStringXBW's constructor copies the caller's prefix (prefixLen bytes) into a buffer of maxlength+1 bytes;
// StringDictionaryXBW::extractPrefix builds the iterator also when nothing matches, so an absent prefix longer than every member
// overflows the heap.  The expected answer is an empty stream.
#include "common.h"
#include "StringDictionaryXBW.h"
int main() {
  auto w = words(300);
  size_t total;
  IteratorDictStringPlain *it = plain(w, &total);
  StringDictionaryXBW *built = new StringDictionaryXBW(it);
  std::stringstream img; built->save(img);
  StringDictionary *d = StringDictionaryXBW::load(img);
  std::string p(200, 'a');             // no member is this long
  IteratorDictString *s = d->extractPrefix((uchar *)p.c_str(), p.size());
  size_t n = 0;
  if (s) { while (s->hasNext()) { uint l; uchar *x = s->next(&l); delete[] x; n++; } delete s; }
  printf("extractPrefix of an absent 200-byte prefix yields %zu strings\n", n);
  return n != 0;
}
