# Forces the schedule: worker has evaluated the wait predicate (false) and is about to block; producer runs add_task+notify.
set pagination off
set non-stop off
set print thread-events off
# 1. stop the worker at the first real block (so that it is inside Worker::run's wait)
break main
run
# make the worker spuriously re-evaluate: we stop it at entry of the plain wait, i.e. after the predicate returned false
break std::condition_variable::wait(std::unique_lock<std::mutex>&)
continue
# now the current thread is the worker, holding shared_mutex, predicate already evaluated to false, not yet blocked
set scheduler-locking on
thread 1
# let only the producer (main thread) run until add_task + notify_all are done
break producer_step
continue
finish
# release everything: the worker now blocks on a condition that is already true and was already notified
set scheduler-locking off
delete
continue
quit
