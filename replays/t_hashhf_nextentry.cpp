// d3: StringDictionaryHASHHF constructor reads sorting[elements] (one past the
// end of the std::vector) while it pads the last-but-one compressed string.
//
// usage: repro [seed n overhead]   (defaults reproduce the defect)
#include <algorithm>
#include <cstdio>
#include <cstdlib>
#include <cstring>
#include <set>
#include <sstream>
#include <string>
#include <vector>

#include "StringDictionary.h"

#ifndef SEED
#define SEED 22
#define NSTR 60
#define OVERHEAD 11
#endif

static unsigned long long lcg_state;
static unsigned lcg() {
  lcg_state = lcg_state * 6364136223846793005ULL + 1442695040888963407ULL;
  return (unsigned)(lcg_state >> 33);
}

static std::string image(const std::vector<std::string> &v, int overhead) {
  size_t len = 0;
  for (auto &s : v) len += s.size() + 1;
  uchar *buf = new uchar[len + 1];
  size_t p = 0;
  for (auto &s : v) {
    memcpy(buf + p, s.c_str(), s.size() + 1);
    p += s.size() + 1;
  }
  buf[len] = 0;
  StringDictionaryHASHHF d(new IteratorDictStringPlain(buf, len), len, overhead);
  std::stringstream ss;
  d.save(ss);
  // every member must still round-trip
  for (auto &s : v) {
    std::vector<uchar> q(s.begin(), s.end());
    q.push_back(0);
    unsigned long id = d.locate(q.data(), s.size());
    uint l = 0;
    uchar *e = id ? d.extract(id, &l) : nullptr;
    if (!e || l != s.size() || memcmp(e, s.data(), l)) {
      printf("round trip fails for '%s'\n", s.c_str());
      exit(2);
    }
    delete[] e;
  }
  return ss.str();
}

int main(int argc, char **argv) {
  unsigned long long seed = argc > 1 ? strtoull(argv[1], 0, 10) : SEED;
  size_t n = argc > 2 ? strtoul(argv[2], 0, 10) : NSTR;
  int overhead = argc > 3 ? atoi(argv[3]) : OVERHEAD;
  lcg_state = seed;
  std::set<std::string> S;
  for (char c = 'a'; c <= 'f'; c++) S.insert(std::string(1, c));
  while (S.size() < n) {
    std::string s;
    size_t l = 1 + lcg() % 12;
    for (size_t i = 0; i < l; i++) s += (char)('a' + lcg() % 6);
    S.insert(s);
  }
  std::vector<std::string> v(S.begin(), S.end()); // sorted, distinct
  std::string a = image(v, overhead);
  std::string b = image(v, overhead);
  printf("image %lu bytes, second build %s\n", (unsigned long)a.size(),
         a == b ? "identical" : "DIFFERENT");
  return a == b ? 0 : 1;
}
