// d5: XBW::XBW(std::istream&) deletes its BitSequenceBuilderRRR through a pointer
// cast to the unrelated class SequenceBuilderWaveletTree (undefined behaviour) and
// never releases the SequenceBuilderWaveletTree itself, which pins the Huffman
// coder and the mapper of the wavelet tree for ever (leak on every load).
#include <StringDictionary.h>
#include <iterators/IteratorDictStringPlain.h>

#include <cstdio>
#include <cstring>
#include <sstream>

int main() {
  const char raw[] = "ab\0abc\0b";
  size_t tot = sizeof(raw);
  unsigned char *arr = new unsigned char[tot];
  memcpy(arr, raw, tot);
  IteratorDictStringPlain *it = new IteratorDictStringPlain(arr, tot);
  StringDictionaryXBW *built = new StringDictionaryXBW(it);
  delete it;
  std::stringstream img;
  built->save(img);
  delete built;

  StringDictionary *d = StringDictionary::load(img, 0); // -> XBW::XBW(std::istream&)
  if (!d) return 2;
  unsigned long id = d->locate((unsigned char *)"abc", 3);
  delete d;
  if (id == 0) { printf("FAIL: locate\n"); return 1; }
  printf("OK (run me under UBSan / LeakSanitizer)\n");
  return 0;
}
