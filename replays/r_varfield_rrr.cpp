// R-VARFIELD: BitSequenceRRR::build / rank1 compute the end of a (possibly empty) offset field as `pos + bits - 1` in 32-bit
// unsigned arithmetic; for pos == 0 and bits == 0 (first block all zeros or all ones) the result is 0xFFFFFFFF instead of
// "one before pos", the empty-field guard `ini == fin + 1` of get_var_field / set_var_field (evaluated in size_t) does not fire
// and word 0 of O is read / written - O has no words at all when every block is uniform.
#include <BitSequenceRRR.h>
#include <BitString.h>
#include <cstdio>
using namespace cds_static;
using namespace cds_utils;
int main() {
  int bad = 0;
  for (size_t n : {15u, 64u, 150u, 1000u}) {
    BitString z(n);                 // all zeros
    BitSequenceRRR r(z, 32);
    for (size_t i = 0; i < n; i++) {
      if (r.access(i)) bad++;
      if (r.rank1(i) != 0) bad++;
    }
    printf("n=%zu: all-zero bitmap, %zu ones reported\n", n, (size_t)r.rank1(n - 1));
  }
  return bad != 0;
}
