// d5: DecodingTable::setDecodingTable() writes past the end of 'stream'.
// Before an entry is serialised the function makes sure that there is room
// for  dbits + 1  bytes, but it writes  1 + length  bytes; the "special"
// entries (padded last chunk of a string) have dbits == 1 and up to 15
// symbols.  When such an entry is written while the stream is within 16 bytes
// of its capacity (65536 bytes, then 131072, ...) the heap block overflows.
//
// usage: repro [seed n]   (defaults reproduce the defect)
#include <cstdio>
#include <cstdlib>
#include <cstring>
#include <set>
#include <string>
#include <vector>

#include "StringDictionary.h"

#ifndef SEED
#define SEED 52
#define NSTR 2900
#endif

static unsigned long long lcg_state;
static unsigned lcg() {
  lcg_state = lcg_state * 6364136223846793005ULL + 1442695040888963407ULL;
  return (unsigned)(lcg_state >> 33);
}

int main(int argc, char **argv) {
  unsigned long long seed = argc > 1 ? strtoull(argv[1], 0, 10) : SEED;
  size_t n = argc > 2 ? strtoul(argv[2], 0, 10) : NSTR;
  lcg_state = seed;
  // strings over '0'..'O' with geometrically decreasing symbol frequencies
  std::set<std::string> S;
  while (S.size() < n) {
    std::string s;
    size_t l = 1 + lcg() % 60;
    for (size_t i = 0; i < l; i++) {
      int c = 0;
      while (c < 31 && lcg() % 100 >= 40) c++;
      s += (char)('0' + c);
    }
    S.insert(s);
  }
  std::vector<std::string> v(S.begin(), S.end()); // sorted, distinct
  size_t len = 0;
  for (auto &s : v) len += s.size() + 1;
  uchar *buf = new uchar[len + 1];
  size_t p = 0;
  for (auto &s : v) {
    memcpy(buf + p, s.c_str(), s.size() + 1);
    p += s.size() + 1;
  }
  buf[len] = 0;
  StringDictionaryHASHHF d(new IteratorDictStringPlain(buf, len), len, 20);
  int bad = 0;
  for (auto &s : v) {
    std::vector<uchar> q(s.begin(), s.end());
    q.push_back(0);
    unsigned long id = d.locate(q.data(), s.size());
    uint l = 0;
    uchar *e = id ? d.extract(id, &l) : nullptr;
    if (!e || l != s.size() || memcmp(e, s.data(), s.size()) != 0) bad++;
    delete[] e;
  }
  printf("%lu strings, %lu bytes, %d wrong answers\n", (unsigned long)v.size(),
         (unsigned long)len, bad);
  return bad != 0;
}
