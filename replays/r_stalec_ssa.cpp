// SSA::locate: the symbol `c` that decides, after the LF walk of one occurrence, whether the walk ended on a sample or on a
// string boundary is not reset per occurrence; an occurrence whose row is itself sampled (walk of length 0) inherits the `c` of
// the previous occurrence.  locateSubstr(p) must return exactly the IDs of the members that contain p.
#include "common.h"
#include <set>
int main() {
  auto w = words(400);
  int bad = 0, tried = 0;
  for (int step : {1, 2, 3, 4, 8, 16}) {
    StringDictionaryFMINDEX d(plain(w), false, 20, step);
    for (std::string pat : {"a", "b", "c", "d", "e", "f", "ab", "ba", "cd", "fe", "abc"}) {
      std::set<size_t> want;
      for (size_t i = 0; i < w.size(); i++) if (w[i].find(pat) != std::string::npos) want.insert(i + 1);
      std::set<size_t> got; size_t n = 0;
      IteratorDictID *it = d.locateSubstr((uchar *)pat.c_str(), pat.size());
      if (it) { while (it->hasNext()) { got.insert(it->next()); n++; } delete it; }
      tried++;
      if (got != want || n != got.size()) {
        bad++;
        size_t missing = 0, extra = 0;
        for (auto x : want) if (!got.count(x)) missing++;
        for (auto x : got) if (!want.count(x)) extra++;
        printf("step %d pattern '%s': %zu members contain it, locateSubstr yields %zu ids (%zu missing, %zu wrong)\n", step, pat.c_str(), want.size(), n, missing, extra);
      }
    }
  }
  printf("%d of %d (step, pattern) cases wrong\n", bad, tried);
  return bad != 0;
}
