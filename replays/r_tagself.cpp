// R-TAGSELF: HASHHF / HASHRPF / HASHRPDAC loaders store the load option into `type`; save writes it back as the tag
#include "common.h"
template <class D> int check(const char *name, uint opt) {
  auto w = words(100);
  D d(plain(w), 0, 25);
  std::stringstream s1;
  d.save(s1);
  s1.seekg(0);
  StringDictionary *l = D::load(s1, opt);
  if (!l) { printf("%s: first load failed\n", name); return 1; }
  std::stringstream s2;
  l->save(s2);
  s2.seekg(0);
  StringDictionary *l2 = StringDictionary::load(s2, opt);
  if (!l2) { printf("FAIL %s: image re-saved by a loaded dictionary cannot be loaded (tag overwritten by load option %u)\n", name, opt); return 1; }
  for (size_t i = 1; i <= w.size(); i++) {
    uint len; uchar *s = l2->extract(i, &len);
    if (l2->locate(s, len) != i) { printf("FAIL %s roundtrip\n", name); return 1; }
    delete[] s;
  }
  printf("OK %s\n", name);
  return 0;
}
int main(int argc, char **argv) {
  int rc = 0;
  int which = argc > 1 ? atoi(argv[1]) : 0;
  if (which == 0 || which == 1) rc |= check<StringDictionaryHASHHF>("HASHHF", HASHUFF);
  if (which == 0 || which == 2) rc |= check<StringDictionaryHASHRPF>("HASHRPF", HASHRP);
  if (which == 0 || which == 3) rc |= check<StringDictionaryHASHRPDAC>("HASHRPDAC", HASHUFF);
  return rc;
}
