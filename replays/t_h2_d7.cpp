// d7: StringDictionaryRPFC and common prefixes of 16384 bytes or more (the
// VByte-encoded prefix length then takes three bytes).
//   A) lcp = 16384, 16385 (VByte 00 00 81, 01 00 81): the constructor takes the
//      0x00 in second position for the end of a string and loses count
//   B) lcp = 20000, 40000 (VByte 20 1c 81, 40 38 82): construction is fine, but
//      the decoders only fetch two symbols before they decode the VByte
// Each case runs in a child process.  exit status 0 = all answers right.
#include <StringDictionary.h>

#include <malloc.h>
#include <sys/wait.h>
#include <unistd.h>

#include <cstdio>
#include <cstring>
#include <sstream>
#include <string>
#include <vector>

static int runCase(const char *name, size_t lcp1, size_t lcp2) {
  // sorted: q^lcp1 a  <  q^lcp2 b  <  q^(lcp2+1) c      (lcp1 < lcp2)
  std::vector<std::string> v;
  v.push_back(std::string(lcp1, 'q') + "a");
  v.push_back(std::string(lcp2, 'q') + "b");
  v.push_back(std::string(lcp2 + 1, 'q') + "c");
  printf("case %s: 3 strings with common prefixes of %zu and %zu bytes, "
         "bucketsize 4\n", name, lcp1, lcp2);
  fflush(stdout);
  pid_t pid = fork();
  if (pid == 0) {
    mallopt(M_PERTURB, 0x55); // makes the use of uninitialised heap repeatable
    size_t total = 0;
    for (auto &s : v)
      total += s.size() + 1;
    uchar *buf = new uchar[total];
    size_t p = 0;
    for (auto &s : v) {
      memcpy(buf + p, s.c_str(), s.size() + 1);
      p += s.size() + 1;
    }
    StringDictionary *d =
        new StringDictionaryRPFC(new IteratorDictStringPlain(buf, total), 4);
    int bad = 0;
    for (size_t i = 1; i <= v.size(); i++) {
      uint len = 0;
      uchar *s = d->extract(i, &len);
      if (!s || v[i - 1] != (char *)s || len != v[i - 1].size()) {
        printf("  extract(%zu): strLen=%u strlen=%zu, expected %zu chars\n", i,
               len, s ? strlen((char *)s) : 0, v[i - 1].size());
        bad++;
      }
      delete[] s;
      std::vector<uchar> q(v[i - 1].begin(), v[i - 1].end());
      q.push_back(0);
      size_t id = d->locate(q.data(), v[i - 1].size());
      if (id != i) {
        printf("  locate(string %zu) = %zu\n", i, id);
        bad++;
      }
    }
    IteratorDictString *it = d->extractTable();
    size_t i = 0;
    while (it->hasNext() && i < v.size()) {
      uint len = 0;
      uchar *s = it->next(&len);
      if (v[i] != (char *)s) { // (the reported length is defect d5)
        printf("  extractTable() item %zu is wrong\n", i + 1);
        bad++;
      }
      delete[] s;
      i++;
    }
    delete it;
    delete d;
    fflush(stdout);
    _exit(bad ? 1 : 0);
  }
  int st = 0;
  waitpid(pid, &st, 0);
  if (WIFSIGNALED(st)) {
    printf("  -> child killed by signal %d\n", WTERMSIG(st));
    return 1;
  }
  printf("  -> %s\n", WEXITSTATUS(st) ? "WRONG ANSWERS" : "ok");
  return WEXITSTATUS(st) != 0;
}

int main() {
  int bad = 0;
  bad += runCase("A", 16384, 16385);
  bad += runCase("B", 20000, 40000);
  bad += runCase("C (control, 2-byte VBytes)", 10000, 16383);
  printf("%s\n", bad ? "FAILED" : "OK");
  return bad ? 1 : 0;
}
