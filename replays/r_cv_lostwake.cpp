// R-CV: lost wake-up in WorkerPool::add_task (the queue is updated and the notify sent without the waiter's mutex).
// Run under gdb with r_cv_lostwake.gdb, which holds the single worker between "predicate evaluated (false)" and
// "blocked in wait" while the producer adds a task and notifies.
#include "parallel/Worker.hpp"
#include <atomic>
#include <chrono>
#include <cstdio>
#include <thread>
#include <cstdlib>
std::atomic<int> ran{0};
void producer_step(WorkerPool &pool) {   // gdb lets exactly this function run while the worker is held
  pool.add_task([]() { ran++; });
}
int main() {
  WorkerPool pool(1);
  std::this_thread::sleep_for(std::chrono::milliseconds(200));   // worker is now blocked in wait (or about to)
  producer_step(pool);
  for (int i = 0; i < 30 && ran == 0; i++) std::this_thread::sleep_for(std::chrono::milliseconds(100));
  if (ran == 0) { printf("FAIL: task was queued and notified 3 s ago but never ran (lost wake-up)\n"); fflush(stdout); _Exit(1); }
  printf("OK task ran\n");
  pool.stop_all_workers();
  pool.wait_workers();
  return 0;
}
