// R-TAGS: generic loader has no case for HASHRPDACBlocks
#include "common.h"
int main() {
  auto w = words(80);
  size_t total;
  auto *it = plain(w, &total);
  StringDictionaryHASHRPDACBlocks sd(it, total, 25, 64, 2);
  std::stringstream ss;
  sd.save(ss);
  ss.seekg(0);
  StringDictionary *d = StringDictionary::load(ss, 0);
  if (!d) { printf("FAIL: generic loader returned NULL for a HASHRPDACBlocks image\n"); return 1; }
  uint l;
  for (size_t i = 1; i <= w.size(); i++) {
    uchar *s = d->extract(i, &l);
    size_t id = d->locate(s, l);
    if (id != i) { printf("FAIL roundtrip %zu\n", i); return 1; }
    delete[] s;
  }
  printf("OK generic load of Blocks image, %zu elements\n", d->numElements());
  delete d;
  return 0;
}
