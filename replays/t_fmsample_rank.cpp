// d2: StringDictionaryFMINDEX construction with BWT sampling reads past the end
// of the separators bitmap (BitSequenceRRR::rank1(length)) and stores the result
// in the saved image: out-of-bounds heap read + non-deterministic image.
//
// Trigger: n = (total bytes of the strings incl. their NULs) + 2 is a multiple
// of the sampling step (so text position n is sampled) and a multiple of 120
// (15-bit RRR blocks, 8 class nibbles per 32-bit word -> the class array C has
// no slack word).  Here: 30 strings, 238 bytes, n = 240, sampling step 4.
//
// -DPAD_NEW : replace operator new/new[] so that every block (and 64 bytes behind
//             it) is pre-filled with a chosen byte - an in-process MALLOC_PERTURB_.
//             The dictionary is built twice (fill 0x00 / 0xFF); the two images
//             must be identical.  Exit 1 if they differ.
// without   : plain double build; meant to be run under ASan (reports the
//             heap-buffer-overflow) or valgrind.
#include <StringDictionary.h>
#include <iterators/IteratorDictStringPlain.h>

#include <cstdio>
#include <cstdlib>
#include <cstring>
#include <new>
#include <sstream>
#include <string>
#include <vector>

#ifdef PAD_NEW
static unsigned char g_fill = 0;
static void *padded(size_t n) {
  void *p = malloc(n + 64);
  if (!p) throw std::bad_alloc();
  memset(p, g_fill, n + 64);
  return p;
}
void *operator new(size_t n) { return padded(n); }
void *operator new[](size_t n) { return padded(n); }
void operator delete(void *p) noexcept { free(p); }
void operator delete[](void *p) noexcept { free(p); }
void operator delete(void *p, size_t) noexcept { free(p); }
void operator delete[](void *p, size_t) noexcept { free(p); }
#endif

static std::string build_image(bool sparse, int bparam, size_t sampling) {
  std::vector<std::string> v;
  char b[16];
  for (int i = 0; i < 29; i++) { snprintf(b, sizeof b, "word%03d", i); v.push_back(b); } // 29 * 8 bytes
  v.push_back("zzzzz");                                                                  // 6 bytes
  size_t tot = 0;
  for (auto &s : v) tot += s.size() + 1; // 238
  unsigned char *arr = new unsigned char[tot + 1];
  size_t p = 0;
  for (auto &s : v) { memcpy(arr + p, s.c_str(), s.size() + 1); p += s.size() + 1; }
  arr[tot] = 0;
  IteratorDictStringPlain *it = new IteratorDictStringPlain(arr, tot);
  StringDictionaryFMINDEX *d = new StringDictionaryFMINDEX(it, sparse, bparam, sampling);
  delete it;
  std::stringstream ss;
  d->save(ss);
  // sanity: the dictionary itself answers correctly
  for (size_t i = 0; i < v.size(); i++)
    if (d->locate((unsigned char *)v[i].c_str(), v[i].size()) != i + 1) { fprintf(stderr, "locate wrong\n"); exit(3); }
  delete d;
  return ss.str();
}

int main() {
#ifdef PAD_NEW
  g_fill = 0x00;
#endif
  std::string a = build_image(false, 20, 4);
#ifdef PAD_NEW
  g_fill = 0xFF;
#endif
  std::string b = build_image(false, 20, 4);
  if (a != b) {
    size_t i = 0;
    while (i < a.size() && i < b.size() && a[i] == b[i]) i++;
    fprintf(stderr, "FAIL: two builds of the same dictionary give different images "
                    "(sizes %zu/%zu, first difference at byte %zu: %02x vs %02x)\n",
            a.size(), b.size(), i, (unsigned char)a[i], (unsigned char)b[i]);
    return 1;
  }
  printf("OK: images identical (%zu bytes)\n", a.size());
  return 0;
}
