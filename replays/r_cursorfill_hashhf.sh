#!/bin/bash
# R-CURSORFILL: StringDictionaryHASHHF's constructor ends with `bytesStrings++` after which nothing is stored: save() writes that
# byte of textStrings although nothing ever initialised it.  Two builds of the same input with the heap pre-filled differently
# (glibc MALLOC_PERTURB_) must give byte-identical images.   usage: r_cursorfill_hashhf.sh <repo-dir>
set -e
REPO=${1:-/repo}; B=$(mktemp -d)
cmake -G Ninja -S $REPO -B $B/b -DCMAKE_BUILD_TYPE=RelWithDebInfo > /dev/null && cmake --build $B/b --target CSD cds > /dev/null
cat > $B/d.cpp <<'EOF'
#include "common.h"
#include "StringDictionaryHASHHF.h"
#include <fstream>
int main(int, char **argv) {
  auto w = words(300);
  size_t total; IteratorDictStringPlain *it = plain(w, &total);
  StringDictionaryHASHHF d(it, total, 25);
  std::ofstream out(argv[1], std::ios::binary); d.save(out); return 0;
}
EOF
g++ -std=gnu++17 -O1 -g -I$(dirname $0) -I$REPO -I$REPO/libcds/includes $B/d.cpp $B/b/libCSD.a $B/b/libcds/libcds.a -lpthread -o $B/d
MALLOC_PERTURB_=17 $B/d $B/i1 > /dev/null; MALLOC_PERTURB_=99 $B/d $B/i2 > /dev/null
n=$(cmp -l $B/i1 $B/i2 | wc -l); echo "images of $(stat -c %s $B/i1) bytes differ in $n byte(s)"; cmp -l $B/i1 $B/i2 | head -3
rm -rf $B; [ "$n" = 0 ]
