// R-CHUNKINIT (byte budget): StringDictionaryHASHHF::extract gives the Huffman decoder maxcomplength+4 bytes of input,
// extractTable gives it maxlength (the longest *decoded* string). With a wide alphabet a string's code is longer than the
// string, so the table scan stops feeding the decoder early. extractTable's k-th string must be extract(k).
#include "common.h"
int main() {
  // short strings over a wide alphabet: rare bytes get codes of more than 8 bits
  std::vector<std::string> v;
  unsigned x = 7;
  for (int i = 0; i < 4000; i++) {
    std::string s;
    int len = 2 + (i % 3);
    for (int j = 0; j < len; j++) { x = x * 1103515245u + 12345u; s.push_back((char)(2 + (x >> 16) % 250)); }
    v.push_back(s);
  }
  std::sort(v.begin(), v.end()); v.erase(std::unique(v.begin(), v.end()), v.end());
  size_t total;
  IteratorDictStringPlain *it = plain(v, &total);
  StringDictionaryHASHHF d(it, total, 25);
  IteratorDictString *t = d.extractTable();
  if (!t) { printf("extractTable returned NULL\n"); return 1; }
  size_t k = 0, bad = 0;
  while (t->hasNext()) {
    uint l1, l2; uchar *a = t->next(&l1); k++;
    uchar *b = d.extract(k, &l2);
    if (l1 != l2 || memcmp(a, b, l2) != 0) { if (bad < 3) printf("k=%zu: table gives %u bytes, extract gives %u bytes\n", k, l1, l2); bad++; }
    delete[] a; delete[] b;
  }
  delete t;
  printf("%zu of %zu table entries differ from extract(k) (numElements %zu)\n", bad, k, (size_t)d.numElements());
  return bad != 0 || k != d.numElements();
}
