// R-EXTENT: DAC_BVLS::levelsIndex allocated nLevels, saved nLevels+1 (ASan: heap-buffer-overflow in save)
#include "common.h"
int main() {
  auto w = words(80);
  StringDictionaryHASHUFFDAC d(plain(w), 0, 25);
  std::stringstream ss;
  d.save(ss);
  printf("OK saved %zu bytes\n", ss.str().size());
  return 0;
}
