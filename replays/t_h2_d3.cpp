// d3: StringDictionaryHTFC - a decoding-table entry indexed for the end of a
// bucket *header* ("special" substring: only the chars up to the end of the
// header, 1 consumed bit) is reused when the same 16-bit chunk appears at the
// end of a *bucket*, where the chunk holds more chars.  The last string of that
// bucket cannot be decoded: the decoder runs out of the indexed entries.
//
// 93 strings over the bytes 0xF0..0xFE (given in hex, sorted), bucketsize 3.
// exit status 0 = every extract()/locate() answer is right.
#include <StringDictionary.h>

#include <cstdio>
#include <cstring>
#include <string>
#include <vector>

static const char *HEX[] = {
    "f1f1faf0", "f1f1fdf8fcf5f8f4", "f1f2", "f1f2f3f9f9f9fdf4", "f1f2f6f0f3fcfbf8",
    "f1f2f6f5f1f1", "f1f7f1fef6f1f3", "f1f7f2f9f7fd", "f1f7f2fbf0f5", "f1f7f5f7fefd",
    "f1f7f8", "f1f8f7faf9f8f2f7", "f1f8f8f0f1fcfaf9", "f1f8f9f7f5fe", "f1f8faf2f2f0",
    "f1f9f3f4faf9f7", "f1f9f7f1f6fdf1f8", "f1f9fbf1f5f1f0fb", "f1f9fcfafbfaf4f1",
    "f2f7f9fbf8f3f3f8", "f2f7fdf9f2f4f3", "f5f7fbf6fcf2f3f1", "f5f7fcf9fcf2fb", "f5f8f1fa",
    "f5f8f3", "f5f8f6f2f4f6f1fb", "f5f8f8f2f0f4f2", "f5f8f9f5fbfbfc", "f5f9",
    "f5f9f2f9f5fdfef2", "f5f9f5f1f8", "f5f9f6f4f3f7f7f1", "f5f9f8f1fbfa",
    "f5f9f8f7f5f3fcf7", "f5f9fcf4", "f5faf0f6f4f1f8f1", "f5faf5f2fdf2f6",
    "f5faf5f9f6f7f2fe", "f5faf6fcf8", "f5fbf2f6f5f6", "f5fbf3fef3", "f5fbf5fbf6fcf2fc",
    "f5fcf6f8faf0f5", "f5fcfbf6", "f5fdf1f4fdf1fe", "f5fef6", "f5fef6faf4f4f6", "f5fef8",
    "f6f1f1f9f0fdf5f1", "f6f1f4f9f8f9f0f3", "f6f1f5f2fd", "f6f1f5f4f2f9fb", "f6f1f6f5fdfa",
    "f6f1f8f3f1fdf8f1", "f6f1fcf7fcf1", "f6f2", "f6f2f0f2f1f5f0f5", "f6f2f3f8f5f7",
    "f6f2f3fdfefe", "f6f2f7f2", "f6f2f8f9f7f3fc", "f6f2f9f4f2f0fd", "f6f2faf8f9",
    "f6f3f6f4fc", "f6f3f7", "f6f3fcf5fafa", "f6f6", "f6f6f2fdf4", "f6f6f8fcfefb",
    "f6f8fbf7f0fcfbf9", "f6f8fdf0f5f3", "f6f8fdf8", "f6f8fef2f1f2fbfa", "f6f9",
    "f6f9faf4fb", "f6fa", "f6faf3faf2f5f0", "f6fafafbf2", "f6fbf1f0fef8fef2", "f6fbf4fcf4",
    "f6fbf5fb", "f6fbf6f5f7f5", "f6fbf7f9f4", "f6fbfefef5fb", "f6fc", "f6fcf2fe",
    "f6fdf1fbfaf8fb", "f6fdf6f4f4f6", "f6fdfd", "f6fef2f4", "f6fef3", "f6fef4",
    "f7f0f0f2f5f9",
};

int main() {
  std::vector<std::string> v;
  for (const char *h : HEX) {
    std::string s;
    for (size_t i = 0; h[i]; i += 2) {
      unsigned x;
      sscanf(h + i, "%2x", &x);
      s += (char)x;
    }
    v.push_back(s);
  }
  size_t total = 0;
  for (auto &s : v)
    total += s.size() + 1;
  uchar *buf = new uchar[total];
  size_t p = 0;
  for (auto &s : v) {
    memcpy(buf + p, s.c_str(), s.size() + 1);
    p += s.size() + 1;
  }
  StringDictionary *d =
      new StringDictionaryHTFC(new IteratorDictStringPlain(buf, total), 3);

  int bad = 0;
  for (size_t i = 1; i <= v.size(); i++) {
    printf("id %zu (bucket %zu, position %zu): ", i, 1 + (i - 1) / 3, (i - 1) % 3);
    fflush(stdout);
    uint len = 0;
    uchar *s = d->extract(i, &len);
    bool ok = s && v[i - 1] == (char *)s && len == v[i - 1].size();
    delete[] s;
    std::vector<uchar> q(v[i - 1].begin(), v[i - 1].end());
    q.push_back(0);
    size_t id = d->locate(q.data(), v[i - 1].size());
    printf("extract %s, locate -> %zu\n", ok ? "ok" : "WRONG", id);
    if (!ok || id != i)
      bad++;
  }
  delete d;
  printf("%s (%d wrong)\n", bad ? "FAILED" : "OK", bad);
  return bad ? 1 : 0;
}
