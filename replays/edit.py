#!/usr/bin/env python3
"""Exact-substring edit that preserves a file's line endings.  usage: edit.py FILE <<< JSON [[old,new],...]"""
import sys, json
p = sys.argv[1]
s = open(p, newline='').read()
crlf = '\r\n' in s
pairs = json.load(sys.stdin)
for old, new in pairs:
    if crlf:
        old = old.replace('\r\n', '\n').replace('\n', '\r\n')
        new = new.replace('\r\n', '\n').replace('\n', '\r\n')
    if s.count(old) != 1:
        sys.exit("edit.py: pattern occurs %d times in %s:\n%s" % (s.count(old), p, old[:200]))
    s = s.replace(old, new)
open(p, 'w', newline='').write(s)
print("edited", p, "(CRLF)" if crlf else "(LF)")
