// R-ALPHAGUARD: SSA::locateP / SSA::locate index occ[] with an unchecked pattern byte
#include "common.h"
int main(int argc, char **argv) {
  auto w = words(200);
  uint s = argc > 2 ? atoi(argv[2]) : 4;  // (text length+1) % s == 0 crashes the build itself (uninitialised last sample): pick another s
  StringDictionaryFMINDEX d(plain(w), false, 20, s);
  uchar q[2] = {0xFE, 0};
  int mode = argc > 1 ? atoi(argv[1]) : 0;
  if (mode == 0) {
    IteratorDictID *it = d.locatePrefix(q, 1);
    int n = 0; while (it->hasNext()) { it->next(); n++; }
    printf("locatePrefix(0xFE): %d ids\n", n);
    return n ? 1 : 0;
  } else {
    IteratorDictID *it = d.locateSubstr(q, 1);
    int n = 0; while (it && it->hasNext()) { it->next(); n++; }
    printf("locateSubstr(0xFE): %d ids\n", n);
    return n ? 1 : 0;
  }
}
