// triage aid: locate(extract(i)) == i and absent lookups on freshly built and on reloaded dictionaries of every kind
#include "common.h"
#include <functional>
static int check(const char *name, StringDictionary *d, const std::vector<std::string> &w, bool ordered) {
  int bad = 0;
  if (d->numElements() != w.size()) { printf("  %s: numElements %zu != %zu\n", name, d->numElements(), w.size()); bad++; }
  for (size_t i = 1; i <= w.size(); i++) {
    uint l = 0; uchar *s = d->extract(i, &l);
    if (!s) { bad++; continue; }
    if (strlen((char *)s) != l) bad++;
    if (ordered && w[i - 1] != (char *)s) bad++;
    size_t id = d->locate(s, l);
    if (id != i) bad++;
    delete[] s;
  }
  for (auto &x : w) { std::string q = x + "g"; if (d->locate((uchar *)q.c_str(), q.size()) != 0) bad++; }
  uint l; if (d->extract(0, &l) != NULL || d->extract(w.size() + 1, &l) != NULL) bad++;
  printf("  %s: %d problems\n", name, bad);
  return bad;
}
int main(int argc, char **argv) {
  std::string only = argc > 1 ? argv[1] : "";
  auto w = words(argc > 2 ? atoi(argv[2]) : 150, argc > 3 ? atoi(argv[3]) : 3);
  struct K { const char *n; std::function<StringDictionary *()> mk; bool ordered; uint opt; };
  std::vector<K> ks = {
    {"PFC", [&] { return new StringDictionaryPFC(plain(w), 8); }, true, 0},
    {"RPFC", [&] { return new StringDictionaryRPFC(plain(w), 8); }, true, 0},
    {"HTFC", [&] { return new StringDictionaryHTFC(plain(w), 8); }, true, 0},
    {"HHTFC", [&] { return new StringDictionaryHHTFC(plain(w), 8); }, true, 0},
    {"RPHTFC", [&] { return new StringDictionaryRPHTFC(plain(w), 8); }, true, 0},
    {"RPDAC", [&] { return new StringDictionaryRPDAC(plain(w)); }, true, 0},
    {"HASHHF", [&] { return new StringDictionaryHASHHF(plain(w), 0, 25); }, false, 1},
    {"HASHRPF", [&] { return new StringDictionaryHASHRPF(plain(w), 0, 25); }, false, 1},
    {"HASHUFFDAC", [&] { return new StringDictionaryHASHUFFDAC(plain(w), 0, 25); }, false, 0},
    {"HASHRPDAC", [&] { return new StringDictionaryHASHRPDAC(plain(w), 0, 25); }, false, 0},
    {"FMINDEX", [&] { return new StringDictionaryFMINDEX(plain(w), false, 20, 0); }, true, 0},
    {"XBW", [&] { return new StringDictionaryXBW(plain(w)); }, false, 0},
  };
  int bad = 0;
  for (auto &k : ks) {
    if (!only.empty() && only != k.n) continue;
    printf("%s\n", k.n); fflush(stdout);
    StringDictionary *d = k.mk();
    std::stringstream ss;
    d->save(ss);
    if (argc <= 4) bad += check("built ", d, w, k.ordered);
    ss.seekg(0);
    StringDictionary *l = StringDictionary::load(ss, k.opt);
    if (!l) { printf("  load failed\n"); bad++; continue; }
    bad += check("loaded", l, w, k.ordered);
    delete l; delete d;
  }
  printf("TOTAL %d problems\n", bad);
  return bad != 0;
}
