// R-STATE: a freshly built StringDictionaryXBW has xbw == NULL (every query crashes); a loaded one has no len/mapping/alpha/last/A (save crashes)
#include "common.h"
int main(int argc, char **argv) {
  auto w = words(120);
  StringDictionaryXBW d(plain(w));
  int mode = argc > 1 ? atoi(argv[1]) : 0;
  if (mode == 0) {
    uint l; uchar *s = d.extract(1, &l);     // SEGV: xbw is NULL on the built object
    printf("built extract(1) = %s\n", s);
    return 0;
  }
  std::stringstream ss; d.save(ss); ss.seekg(0);
  StringDictionary *ld = StringDictionary::load(ss, 0);
  uint l; uchar *s = ld->extract(1, &l);
  printf("loaded extract(1) = %s\n", s);
  std::stringstream s2; ld->save(s2);        // reads len / mapping / alpha / last / A, which load never sets
  printf("re-saved %zu bytes (original %zu)\n", s2.str().size(), ss.str().size());
  return s2.str() == ss.str() ? 0 : 1;
}
