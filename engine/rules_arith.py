"""R-CLAMP, R-METADATA, R-SHIFT, R-SELECTRANGE, R-BUCKET, R-PROBE, R-FMMAP, R-GROW: parameter sanitisation, counters,
shift widths, sibling loop ranges, ID arithmetic, probe sequences, growth guards."""
from core import *
from rulebase import rule
from rules_dispatch import kinds, method, FC_KINDS, ORDERED_KINDS
from rules_serial import SeqBuilder, bind_single_def_locals
from rules_iter import pinned_sym
import symx
from symx import canon, mk_op, C


def param_uses(f, pi):
    return [n for n in f.live_nodes() if n["k"] == "DeclRefExpr" and n.get("dk") == "param" and n.get("pi") == pi]


@rule("R-CLAMP", 5, "a bucket size below 2 is replaced: on the clamp path the member ends up with a constant >= 2 (directly or through "
                    "the re-assigned parameter) and the unclamped parameter value reaches no further use")
def r_clamp(db, rep):
    for k in FC_KINDS:
        for c in db.methods_of(k):
            if not c.is_ctor or not c.body:
                continue
            mwrites = [(lv, w) for lv, w in written_lvalues(c) if access_path(c, lv) == ("this", "bucketsize")]
            # the bucket-size parameter: the one copied into the member (or, failing that, the one named so)
            pi = None
            for lv, w in mwrites:
                r = strip(w["rhs"]) if w.get("rhs") is not None else None
                if r is not None and r["k"] == "DeclRefExpr" and r.get("dk") == "param":
                    pi = r["pi"]
            if pi is None:
                pi = next((i for i, p in enumerate(c.params) if p["n"] == "bucketsize"), None)
            if pi is None:
                continue
            cfg = c.cfg
            rep.visit(c)
            clamp = None
            for n in c.live_nodes():
                if n["k"] == "IfStmt" and n.get("cond") is not None:
                    sc = strip(n["cond"])
                    if sc["k"] == "BinaryOperator" and sc["op"] in ("<", "<=") and \
                            strip(sc["lhs"]).get("pi") == pi and strip(sc["lhs"]).get("dk") == "param" and const_value(sc["rhs"]) is not None:
                        clamp = n
                        break
            rep.inst(c.loc, "%s: clamp of parameter %s" % (c.qn, c.params[pi]["n"]))
            rep.ob()
            if clamp is None:
                rep.viol("%s#no-clamp" % c.qn, c.loc, "%s does not replace a bucket size below 2" % c.qn, c.qn)
                continue
            in_then = lambda x: any(y is x for y in walk(clamp["then"]))
            pwrites = [(lv, w) for lv, w in written_lvalues(c) if access_path(c, lv) == ("param", pi)]
            # parameter clamped inside the branch?
            p_clamped = [w for lv, w in pwrites if in_then(w) and w.get("op") == "=" and (const_value(w.get("rhs")) or 0) >= 2]
            p_dirty = [w for lv, w in pwrites if w not in p_clamped]
            then_entry = cfg.position(clamp["then"]["c"][0] if clamp["then"]["k"] == "CompoundStmt" and clamp["then"].get("c") else clamp["then"])
            mpos = [(cfg.position(w), w) for lv, w in mwrites]
            mpos = [(p, w) for p, w in mpos if p is not None]
            rep.ob()
            bad = None
            if then_entry is None or not mpos:
                bad = "the member is never assigned"
            else:
                exits = [cfg.exit] if hasattr(cfg, "exit") else []
                # member writes that can be the last one on a path starting in the clamp branch
                for pos, w in mpos:
                    reach = in_then(w) or cfg.path_exists(then_entry, [pos])
                    if not reach:
                        continue
                    others = [p for p, w2 in mpos if w2 is not w]
                    last = True
                    if exits:
                        last = cfg.path_exists(pos, exits, avoid=others)
                    if not last:
                        continue
                    r = strip(w["rhs"]) if w.get("rhs") is not None else None
                    cv = const_value(w.get("rhs")) if w.get("op") == "=" else None
                    if cv is not None and cv >= 2:
                        continue
                    if r is not None and r["k"] == "DeclRefExpr" and r.get("dk") == "param" and r.get("pi") == pi and p_clamped and not p_dirty \
                            and not in_then(w):
                        continue
                    if r is not None and r["k"] == "DeclRefExpr" and r.get("dk") == "param" and r.get("pi") == pi and in_then(w) and p_clamped and \
                            cfg.position(p_clamped[0]) is not None and cfg.path_exists(cfg.position(p_clamped[0]), [pos]):
                        continue
                    bad = "the value stored at line %s is not a constant >= 2" % w.get("l")
                if bad is None and exits:
                    if cfg.path_exists(then_entry, exits, avoid=[p for p, _ in mpos]) and not any(in_then(w) for _, w in mpos):
                        bad = "a path from the clamp branch to the end of the constructor assigns nothing to the member"
            if bad is not None:
                rep.viol("%s#clamp-value" % c.qn, c.nloc(clamp), "%s: a bucket size below 2 does not end up as a legal value in the member: %s" % (c.qn, bad), c.qn)
            # uses of the raw parameter after the clamp branch (a parameter re-assigned >= 2 in the branch is clean from then on)
            if p_clamped and not p_dirty:
                rep.notes.append("%s: the parameter itself is re-assigned in the clamp branch; later uses see the clamped value" % c.qn)
                continue
            then_assign = [w for _, w in mpos if in_then(w)]
            then_pos = cfg.position(then_assign[0]) if then_assign else then_entry
            reassigns = [cfg.position(w) for lv, w in pwrites]
            reassigns = [r for r in reassigns if r is not None]
            for u in param_uses(c, pi):
                if any(x is u for x in walk(clamp["cond"])):
                    continue
                up = cfg.position(u)
                if up is None or then_pos is None:
                    continue
                par = c.parent(u)
                if par is not None and is_assignment(par) and strip(par["lhs"]) is u:
                    continue
                rep.ob()
                if cfg.path_exists(then_pos, [up], avoid=reassigns):
                    rep.viol("%s#raw-bucketsize-used" % c.qn, c.nloc(u),
                             "%s warns and stores 2 in the member when bucketsize < 2, but still uses the raw parameter afterwards "
                             "(%s): bucket size 0 or 1 builds a broken dictionary (division by zero / mismatched bucket arithmetic)" % (
                                 c.qn, c.nloc(u)), c.qn)
                    break


def _accessor_obligations(db, rep):
    """numElements / maxLength (and per-kind overrides) return the stored field itself, not a function of it."""
    for name, fld in (("numElements", "elements"), ("maxLength", "maxlength")):
        for f in db.funcs.values():
            if f.name != name or not f.body or not f.rec or not (f.rec == "StringDictionary" or db.is_subclass(f.rec, "StringDictionary")):
                continue
            rep.visit(f)
            rets = [n for n in f.live_nodes() if n["k"] == "ReturnStmt" and n.get("value") is not None]
            rep.inst(f.loc, "%s returns %s" % (f.qn, ", ".join(canon(SeqBuilder(db, f, "c", nosubst=True).sym(r["value"])) for r in rets)))
            for r in rets:
                rep.ob()
                p = resolved_path(f, r["value"])
                if f.rec == "StringDictionary" and p != ("this", fld):
                    rep.viol("%s#accessor" % f.qn, f.nloc(r),
                             "%s returns %s rather than the stored %s: every kind's constructor and loader maintain that field as the exact "
                             "count / the length bound, so any adjustment here makes the reported value wrong for some kind" % (
                                 f.qn, canon(SeqBuilder(db, f, "c", nosubst=True).sym(r["value"])), fld), f.qn)


@rule("R-METADATA", 12, "every building constructor counts each consumed string exactly once into `elements` and keeps "
                        "`maxlength` >= its length (or copies both from the dictionary it wraps)")
def r_metadata(db, rep):
    _accessor_obligations(db, rep)
    for k in kinds(db):
        ctors = [c for c in db.methods_of(k) if c.is_ctor and c.params and "Iterator" in c.tstr(c.params[0]["t"])]
        for c in ctors:
            if any(i.get("delegating") for i in c.raw.get("inits", [])):
                continue
            rep.visit(c)
            cfg = c.cfg
            nexts = [n for n in c.calls() if n["k"] == "CXXMemberCallExpr" and callee_name(n) == "next" and
                     n.get("obj") is not None and access_path(c, n["obj"]) == ("param", 0)]
            writes = list(written_lvalues(c))
            el_writes = [(lv, w) for lv, w in writes if access_path(c, lv) in (("this", "elements"), ("this", "strings_qty"))]
            ml_writes = [(lv, w) for lv, w in writes if access_path(c, lv) == ("this", "maxlength")]
            rep.inst(c.loc, "%s: %d input reads, %d element-count updates, %d maxlength updates" % (c.qn, len(nexts), len(el_writes), len(ml_writes)))
            if not nexts:
                # derived kinds: copy both from the wrapped dictionary - the one the input iterator is handed to
                wrapped = [n for n in c.nodes() if n["k"] == "CXXConstructExpr" and (n.get("rec") or "").startswith("StringDictionary") and
                           any(access_path(c, a) == ("param", 0) for a in n.get("args", []))]
                if not wrapped:
                    rep.notes.append("%s neither reads its input with next() nor hands it to another dictionary (it scans the text itself): "
                                     "how strings are counted is not decided" % c.qn)
                    continue
                rep.ob()
                for fld, ws in (("elements", el_writes), ("maxlength", ml_writes)):
                    ok = False
                    for lv, w in ws:
                        p = access_path(c, w.get("rhs")) if w.get("rhs") is not None else None
                        if p and p[-1] == fld and p[0] == "local":
                            ok = True
                    if not ok:
                        rep.viol("%s#%s-not-copied" % (c.qn, fld), c.loc,
                                 "%s consumes its input through another dictionary but does not copy %s from it" % (c.qn, fld), c.qn)
                continue
            incs = [cfg.position(w) for lv, w in el_writes if (w["k"] == "UnaryOperator" and w["op"] == "++") or
                    (w.get("op") == "+=" and const_value(w.get("rhs")) == 1)]
            incs = [p for p in incs if p is not None]
            nposs = [cfg.position(nx) for nx in nexts]
            counted_sites, ml_sites = [], []
            for nx in nexts:
                npos = cfg.position(nx)
                # one increment of the counter per consumed string: on every path from this next() back to a next() or to the end
                if incs and not cfg.path_exists(npos, nposs + [cfg.exit], avoid=incs):
                    counted_sites.append(nx)
                lenvar = None
                for a in nx.get("args", []):
                    sa = strip(a)
                    if sa["k"] == "UnaryOperator" and sa["op"] == "&":
                        lenvar = access_path(c, sa["sub"])
                ok = False
                for lv, w in ml_writes:
                    rhs = w.get("rhs")
                    if rhs is None or lenvar is None:
                        continue
                    if not any(access_path(c, x) == lenvar for x in walk(rhs) if x["k"] == "DeclRefExpr"):
                        continue
                    sb = SeqBuilder(db, c, "c", nosubst=True)
                    d = symx.poly(mk_op("-", sb.sym(rhs), ("local", lenvar[1])))
                    if set(d.keys()) - {()} or d.get((), 0) < 0:
                        continue
                    for cnd, pol in cfg.guards(w):
                        sc = strip(cnd) if cnd else None
                        if sc is None or sc["k"] != "BinaryOperator" or sc["op"] not in (">", ">=", "<", "<="):
                            continue
                        l, r = access_path(c, sc["lhs"]), access_path(c, sc["rhs"])
                        if {l, r} == {lenvar, ("this", "maxlength")}:
                            gt = (sc["op"] in (">", ">=") and l == lenvar) or (sc["op"] in ("<", "<=") and r == lenvar)
                            if gt == pol:
                                # the update must follow this read on every path where the test holds: it is in the same iteration
                                if cfg.path_exists(cfg.position(nx), [cfg.position(w)], avoid=[p for p in nposs if p != cfg.position(nx)]):
                                    ok = True
                if ok:
                    ml_sites.append(nx)
            # multi-pass builders read the input more than once: one pass must do the counting, none may count twice
            rep.ob()
            # the count is not kept by +1 steps at all but derived (a closed form after the loop, per-block subtotals added up): a
            # value-level question, not decided here
            derived_count = not incs and any(not ((w["k"] == "UnaryOperator") or const_value(w.get("rhs")) is not None) for lv, w in el_writes)
            if derived_count:
                rep.notes.append("%s: the element count is derived (%s) rather than incremented per string: undecided" % (
                    c.qn, ", ".join("line %s" % w.get("l") for lv, w in el_writes if const_value(w.get("rhs")) is None and w["k"] != "UnaryOperator")))
            if not counted_sites and not derived_count:
                rep.viol("%s#elements-miscounted" % c.qn, c.nloc(nexts[0]),
                         "%s: no pass over the input counts every string it reads exactly once into the element count "
                         "(some path from a read to the next read, or to the end, skips the increment)" % c.qn, c.qn)
            rep.ob()
            for ip in incs:
                if cfg.path_exists(ip, incs, avoid=nposs):
                    rep.viol("%s#elements-double" % c.qn, c.nloc(nexts[0]), "%s can count one consumed string twice" % c.qn, c.qn)
                    break
            rep.ob()
            # maxlength folded in from an intermediate maximum (per-block statistics): the link to each string's length goes through
            # another variable - undecided
            lenvars = set()
            for nx in nexts:
                for a in nx.get("args", []):
                    sa = strip(a)
                    if sa["k"] == "UnaryOperator" and sa["op"] == "&":
                        lenvars.add(access_path(c, sa["sub"]))
            # an intermediate counts only if, within one pass from a read to this write (no other read in between), it has been
            # given a value computed from the length just read - `block_max = max(block_max, len)` - and not if it still holds what
            # an earlier iteration left (`lenPrev`)
            indirect = []
            for lv, w in ml_writes:
                rhs = w.get("rhs")
                if rhs is None or const_value(rhs) is not None or cfg.position(w) is None:
                    continue
                if any(access_path(c, x) in lenvars for x in walk(rhs) if x["k"] == "DeclRefExpr"):
                    continue
                inter = {access_path(c, x) for x in walk(rhs) if x["k"] == "DeclRefExpr" and x.get("dk") == "local"} - lenvars
                for lv2, w2 in writes:
                    if access_path(c, lv2) not in inter or w2.get("rhs") is None or cfg.position(w2) is None:
                        continue
                    if not any(access_path(c, x) in lenvars for x in walk(w2["rhs"]) if x["k"] == "DeclRefExpr"):
                        continue
                    if any(np is not None and cfg.path_exists(np, [cfg.position(w2)], avoid=[q for q in nposs if q is not None and q != np]) for np in nposs) and \
                            cfg.path_exists(cfg.position(w2), [cfg.position(w)], avoid=[q for q in nposs if q is not None]):
                        indirect.append(w)
                        break
            if not ml_sites and indirect:
                rep.notes.append("%s: maxlength is raised from an intermediate value (line %s), not directly from the length just read: undecided" % (
                    c.qn, indirect[0].get("l")))
            elif not ml_sites:
                rep.viol("%s#maxlength" % c.qn, c.nloc(nexts[0]),
                         "%s does not raise maxlength to (at least) the length of each string it reads under a `len > maxlength` test" % c.qn, c.qn)


SHIFT_FUNCS = [("LogSequence", "get_field", {"bitsField": (1, 64)}), ("LogSequence", "set_field", {"bitsField": (1, 64)}),
               ("LogSequence", "maxVal", {"numbits": (1, 64)}),
               # the 32-bit packed-field primitives of the bundled libcds (used by DAC_VLS / DAC_BVLS / RRR / the hash bitmaps)
               (None, "cds_utils::get_field", {"len": (1, 32)}), (None, "cds_utils::set_field", {"len": (1, 32)})]


def interval(sb, f, n, env):
    """Interval [lo, hi] of an integer expression under parameter ranges env {param index: (lo,hi)}; None if unknown."""
    n = strip(n)
    cv = const_value(n)
    if cv is not None:
        return (cv, cv)
    k = n["k"]
    if k == "DeclRefExpr":
        if n.get("dk") == "param" and n["pi"] in env:
            return env[n["pi"]]
        if n.get("dk") == "local":
            return env.get(("local", n["d"]))
        return None
    if k == "BinaryOperator":
        a, b = interval(sb, f, n["lhs"], env), interval(sb, f, n["rhs"], env)
        op = n["op"]
        if a is None or b is None:
            if op == "%" and b is not None and b[0] > 0:
                return (0, b[1] - 1)
            return None
        if op == "+":
            return (a[0] + b[0], a[1] + b[1])
        if op == "-":
            return (a[0] - b[1], a[1] - b[0])
        if op == "*":
            v = [a[0] * b[0], a[0] * b[1], a[1] * b[0], a[1] * b[1]]
            return (min(v), max(v))
        if op == "%" and b[0] > 0:
            return (0, b[1] - 1)
        if op == "<<" and b[0] >= 0 and b[1] < 64:
            return (a[0] << b[0], a[1] << b[1])
    return None


def eval_int(f, n, env):
    """Evaluate a source integer expression under env {('param',i)|('local',d): value}; None if it mentions anything else."""
    n = strip(n)
    cv = const_value(n)
    if cv is not None:
        return cv
    k = n["k"]
    if k == "DeclRefExpr":
        if n.get("dk") == "param":
            return env.get(("param", n["pi"]))
        if n.get("dk") == "local":
            return env.get(("local", n["d"]))
        return None
    if k == "BinaryOperator":
        a = eval_int(f, n["lhs"], env)
        if a is None:
            return None
        if n["op"] == "&&" and not a:
            return 0
        if n["op"] == "||" and a:
            return 1
        b = eval_int(f, n["rhs"], env)
        if b is None:
            return None
        return symx.eval_op(n["op"], a, b)
    if k == "UnaryOperator":
        a = eval_int(f, n["sub"], env)
        if a is None:
            return None
        if n["op"] == "-":
            return -a
        if n["op"] == "!":
            return int(not a)
        if n["op"] == "+":
            return a
    return None


@rule("R-SHIFT", 6, "packed-array primitives: for every legal field width (1..64) and every in-word offset no shift amount can reach "
                    "the width of the shifted operand on any path (decided by evaluating the source guard and amount expressions over the "
                    "whole finite domain)")
def r_shift(db, rep):
    import itertools
    for rec, name, ranges in SHIFT_FUNCS:
        f = method(db, rec, name) if rec else db.fn(name)
        rep.visit(f)
        cfg = f.cfg
        # domain: width parameters over their legal range; locals defined as `x % M` with constant M over 0..M-1
        dom = {}
        for i, p in enumerate(f.params):
            if p["n"] in ranges:
                lo, hi = ranges[p["n"]]
                dom[("param", i)] = list(range(lo, hi + 1))
        for n in f.live_nodes():
            if n["k"] == "DeclStmt":
                for d in n["decls"]:
                    ini = strip(d.get("init")) if d.get("init") is not None else None
                    if ini is not None and ini["k"] == "BinaryOperator" and ini["op"] == "%" and const_value(ini["rhs"]) and "d" in d:
                        dom[("local", d["d"])] = list(range(0, const_value(ini["rhs"])))
                    # the same remainder spelled  x - M * (x / M)  with the quotient held in a local
                    if ini is not None and ini["k"] == "BinaryOperator" and ini["op"] == "-" and "d" in d:
                        r = strip(ini["rhs"])
                        if r["k"] == "BinaryOperator" and r["op"] == "*":
                            for cside, qside in ((r["lhs"], r["rhs"]), (r["rhs"], r["lhs"])):
                                M = const_value(cside)
                                q = strip(qside)
                                if M and q["k"] == "DeclRefExpr" and q.get("dk") == "local":
                                    qi = single_def_init(f, q["d"])
                                    qi = strip(qi) if qi is not None else None
                                    if qi is not None and qi["k"] == "BinaryOperator" and qi["op"] == "/" and const_value(qi["rhs"]) == M:
                                        sbq = SeqBuilder(db, f, "x", nosubst=True)
                                        if canon(sbq.sym(qi["lhs"])) == canon(sbq.sym(ini["lhs"])):
                                            dom[("local", d["d"])] = list(range(0, M))
        shifts = [n for n in f.live_nodes() if n["k"] == "BinaryOperator" and n["op"] in ("<<", ">>")]
        for idx, n in enumerate(shifts):
            lt = f.type(n)
            width = lt["bits"] if lt and lt["bits"] > 0 else 32
            rep.inst(f.nloc(n), "%s: %s on a %d-bit operand" % (f.qn, n["op"], width))
            rep.ob()
            guards = cfg.guards(n)
            keys = sorted(dom, key=str)
            witness = None
            undecided = False
            npts = 0
            for vals in itertools.product(*[dom[k] for k in keys]):
                env = dict(zip(keys, vals))
                feasible = True
                for c, pol in guards:
                    if c is None:
                        continue
                    v = eval_int(f, c, env)
                    if v is None:
                        continue        # guard over other state: cannot exclude the point (sound for reporting only with a witness check below)
                    if bool(v) != pol:
                        feasible = False
                        break
                if not feasible:
                    continue
                npts += 1
                amt = eval_int(f, n["rhs"], env)
                if amt is None:
                    undecided = True
                    break
                if amt < 0 or amt >= width:
                    witness = (env, amt)
                    break
            if undecided:
                rep.notes.append("%s: shift amount at %s depends on values outside the width/offset domain (not decided)" % (f.qn, f.nloc(n)))
                continue
            if witness is not None:
                env, amt = witness
                names = {}
                for k2, v in env.items():
                    names[f.params[k2[1]]["n"] if k2[0] == "param" else "local#%d" % k2[1]] = v
                rep.viol("%s#shift-%d" % (f.qn, idx), f.nloc(n),
                         "%s shifts a %d-bit operand by %d when %s (reachable under its guards): undefined behaviour; x86 takes the count modulo "
                         "the width, so a mask built this way comes out all-ones or zero and the field is stored / read wrongly at that width" % (
                             f.qn, width, amt, names), f.qn)


@rule("R-SELECTRANGE", 2, "sibling agreement: the loops of the compact hash loaders that enumerate the occupied cells with "
                          "select1(i) all run over the same range 1..n")
def r_selectrange(db, rep):
    sigs = []
    for rec in ("HashBdh", "HashBBdh"):
        for f in db.methods_of(rec, "load"):
            for n in f.live_nodes():
                if n["k"] != "ForStmt" or n.get("cond") is None:
                    continue
                cond = strip(n["cond"])
                if cond["k"] != "BinaryOperator":
                    continue
                iv = access_path(f, cond["lhs"])
                uses = [x for x in walk(n["body"]) if x["k"] == "CXXMemberCallExpr" and callee_name(x) == "select1" and
                        x.get("args") and any(y["k"] == "DeclRefExpr" and access_path(f, y) == iv for y in walk(x["args"][0]))]
                if not uses:
                    continue
                init = None
                ini = n.get("init")
                if ini is not None and ini["k"] == "DeclStmt" and ini["decls"] and ini["decls"][0].get("init") is not None:
                    init = const_value(ini["decls"][0]["init"])
                # semantic form of the enumeration: first and last argument handed to select1
                sbx = SeqBuilder(db, f, "c", nosubst=True)
                sbx.mode = "x"
                bp = resolved_path(f, cond["rhs"])
                if bp is not None and bp[0] == "local" and len(bp) == 2:
                    # a local holding the count that is also stored into field n:  count = load(in); obj->n = count;
                    for lv2, w2 in written_lvalues(f):
                        p2 = access_path(f, lv2)
                        if p2 and p2[-1] == "n" and w2.get("op") == "=" and w2.get("rhs") is not None and resolved_path(f, w2["rhs"]) == bp:
                            bp = p2
                nm = bp[-1] if bp else canon(sbx.sym(cond["rhs"]))
                op = cond["op"]
                arg = uses[0]["args"][0]
                first = last = None
                if init is not None and iv is not None:
                    sbx.env[iv] = C(init)
                    first = canon(sbx.sym(arg))
                    sbx.env[iv] = ("global", "N") if op == "<=" else symx.mk_op("-", ("global", "N"), C(1)) if op == "<" else ("unk", "b")
                    last = canon(sbx.sym(arg))
                if first == canon(C(1)) and last == canon(("global", "N")) and nm == "n":
                    sig = (1, "<=", "n")            # some other spelling of 1..n
                else:
                    sig = (init, op, nm)
                rep.visit(f)
                rep.inst(f.nloc(n), "%s: for (i = %s; i %s %s; ..) select1(i)" % (f.qn, sig[0], sig[1], sig[2]))
                sigs.append((f, n, sig))
    want = (1, "<=", "n")
    for f, n, sig in sigs:
        rep.ob()
        if sig != want:
            rep.viol("%s#select-range" % f.qn, f.nloc(n),
                     "%s enumerates occupied cells with select1(i) for i = %s; i %s %s, but select1 is 1-based and there are n strings "
                     "(its sibling loader uses 1..n): the last (or a non-existent) cell is mis-handled" % (f.qn, sig[0], sig[1], sig[2]), f.qn)


# ---------------------------------------------------------------------------------------------------
PROBE_FUNCS = [("Hash", "insert"), ("HashDAC", "insert"), ("Hashdh", "search"), ("HashBdh", "search"), ("HashBBdh", "search"),
               ("HashDAC", "search"), ("StringDictionaryHASHRPDAC", "locate"), ("StringDictionaryHASHRPF", "locate")]


def definitions(f):
    """(target access path, rhs node, defining node) for every plain assignment and every initialised declaration in f."""
    for n in f.live_nodes():
        if n["k"] == "DeclStmt":
            for d in n["decls"]:
                if d.get("init") is not None and "d" in d:
                    yield ("local", d["d"]), d["init"], n
        elif is_assignment(n) and n.get("op") == "=" and n.get("rhs") is not None:
            yield access_path(f, n["lhs"]), n["rhs"], n


def probe_signature(db, f):
    """(start var, hash fn, step fn, modulus field name, recurrence kind) of a double-hashing walk in f, plus problems."""
    probs = []
    start = step = None
    mod = set()
    for tgt, rhs, w in definitions(f):
        ini = strip(rhs)
        if tgt is not None and tgt[0] == "local" and len(tgt) == 2 and ini["k"] == "CallExpr" and \
                callee_name(ini) in ("bitwisehash", "step_value") and len(ini.get("args", [])) == 3:
            p = resolved_path(f, ini["args"][2])
            m = p[-1] if p else None
            if callee_name(ini) == "bitwisehash":
                start = (tgt[1], ini, m, [resolved_path(f, a) for a in ini["args"][:2]])
            else:
                step = (tgt[1], ini, m, [resolved_path(f, a) for a in ini["args"][:2]])
    if start is None or step is None:
        return None, ["no bitwisehash/step_value pair"]
    if start[2] != "tsize" or step[2] != "tsize":
        probs.append("hash and step are not both reduced modulo the table size")
    if start[3] != step[3]:
        probs.append("hash and step are computed over different (string, length) arguments")
    # advance statements: x = (a + b) % T
    adv = []
    for tgt, rhs, w in definitions(f):
        r = strip(rhs)
        if r["k"] == "BinaryOperator" and r["op"] == "%":
            tp = resolved_path(f, r["rhs"])
            sb = SeqBuilder(db, f, "c", nosubst=True)
            sb.mode = "x"           # keep locals as atoms here: the walk's own variables are what is being related
            for key in (start[0], step[0]):
                sb.env[("local", key)] = ("local", key)
            num = symx.poly(sb.sym(r["lhs"]))
            adv.append((w, tgt, num, tp[-1] if tp else None, r, f))
        elif r["k"] == "CallExpr" and r.get("f") in db.funcs and tgt is not None:
            # the advance factored into a one-expression helper:  cell = probe(h, s, i, T)  with  return (h + i*s) % T;
            h = db.funcs[r["f"]]
            rets = [n for n in h.live_nodes() if n["k"] == "ReturnStmt" and n.get("value") is not None]
            stmts = h.body.get("c", []) if h.body and h.body["k"] == "CompoundStmt" else []
            if len(rets) != 1 or len(stmts) != 1:
                continue
            hv = strip(rets[0]["value"])
            if hv["k"] != "BinaryOperator" or hv["op"] != "%":
                continue
            sb = SeqBuilder(db, f, "c", nosubst=True)
            sb.mode = "x"
            for key in (start[0], step[0]):
                sb.env[("local", key)] = ("local", key)
            hsb = SeqBuilder(db, h, "c", nosubst=True)
            hsb.mode = "x"
            for i, a in enumerate(r.get("args", [])):
                hsb.env[("param", i)] = sb.sym(a)
            num = symx.poly(hsb.sym(hv["lhs"]))
            mp = access_path(h, hv["rhs"])
            tp = resolved_path(f, r["args"][mp[1]]) if mp and mp[0] == "param" and len(mp) == 2 and mp[1] < len(r.get("args", [])) else None
            adv.append((w, tgt, num, tp[-1] if tp else None, hv, h))
    if not adv:
        return None, ["no probe advance statement"]
    kinds_ = []
    for w, tgt, num, m, r, rf in adv:
        if m != "tsize":
            probs.append("probe advance at line %s is reduced modulo something other than the table size" % w.get("l"))
        # every product in the advance is computed at the width of the modulus (i * step must not wrap at 32 bits while the
        # insert that placed the string computed it in size_t)
        mt = rf.type(r["rhs"])
        for x in walk(r["lhs"]):
            if x["k"] == "BinaryOperator" and x["op"] == "*":
                xt = rf.type(x)
                if mt and xt and (xt.get("bits") or 0) < (mt.get("bits") or 0):
                    probs.append("the product at line %s is computed in %d bits although the table size is a %d-bit quantity: it wraps for large "
                                 "tables and the lookup leaves the probe sequence the insert followed" % (x.get("l"), xt.get("bits") or 0, mt.get("bits") or 0))
        hs, ss = "L%d" % start[0], "L%d" % step[0]
        keys = {k_: v for k_, v in num.items()}
        if keys == {(hs,): 1, (ss,): 1} and tgt == ("local", start[0]):
            kinds_.append("recurrence h=(h+s)%T")
        else:
            # (h + i*s) % T with i the loop variable starting at 1
            ok = False
            if (hs,) in keys and keys[(hs,)] == 1 and len(keys) == 2 and tgt != ("local", start[0]):
                other = [k_ for k_ in keys if k_ != (hs,)][0]
                if len(other) == 2 and ss in other and keys[other] == 1:
                    iv = [x for x in other if x != ss][0]
                    # the counter starts at 1 and is incremented by one per round: all its definitions are `= 1` (one, outside the
                    # loop) and `++` / `+= 1` (inside the loop that contains the advance)
                    ivd = int(iv[1:]) if iv.startswith("L") and iv[1:].isdigit() else None
                    loop = next((a for a in f.ancestors(w) if a["k"] in ("ForStmt", "WhileStmt", "DoStmt")), None)
                    if ivd is not None and loop is not None:
                        inits, incs, other_w = [], [], []
                        for tg2, rhs2, w2 in definitions(f):
                            if tg2 == ("local", ivd):
                                inits.append((rhs2, w2))
                        for lv2, w2 in written_lvalues(f):
                            if access_path(f, lv2) == ("local", ivd):
                                if (w2["k"] == "UnaryOperator" and w2["op"] == "++") or (w2.get("op") == "+=" and const_value(w2.get("rhs")) == 1):
                                    incs.append(w2)
                                elif not (w2.get("op") == "="):
                                    other_w.append(w2)
                        in_loop = lambda x: any(y is x for y in walk(loop.get("body") or loop)) or (loop.get("inc") is not None and any(y is x for y in walk(loop["inc"])))
                        # i = 1.. after a separate look at the home cell, or i = 0.. with the home cell visited by the loop itself
                        # (h + 0*s = h); which of the two applies is settled by the count of cells examined below
                        if len(inits) == 1 and const_value(inits[0][0]) in (0, 1) and not in_loop(inits[0][1]) and len(incs) == 1 and in_loop(incs[0]) and not other_w:
                            ok = True
            if ok:
                kinds_.append("closed form (h+i*s)%T, i=0/1..")
            else:
                probs.append("probe advance at line %s is neither h=(h+s)%%T nor (h+i*s)%%T with i=1,2,.." % w.get("l"))
    # number of cells examined: (occupancy tests of the probe cell before the loop) + (loop trips) x (tests per round) must reach
    # the table size, otherwise a key whose free cell is the last one of its probe sequence is reported "table full" / not found
    probe_vars = {("local", start[0])} | {tgt for w, tgt, num, m, r, rf in adv if tgt is not None}
    def is_cell_test(n):
        if n["k"] != "IfStmt" or n.get("cond") is None:
            return False
        for x in walk(n["cond"]):
            if x["k"] == "ArraySubscriptExpr" and access_path(f, x["idx"]) in probe_vars:
                return True
            if x["k"] == "CXXMemberCallExpr" and callee_name(x) == "access" and x.get("args") and access_path(f, x["args"][0]) in probe_vars:
                return True
        return False
    loops = [n for n in f.live_nodes() if n["k"] in ("ForStmt", "WhileStmt") and any(any(y is w for y in walk(n)) for w, *_ in adv)]
    if len(loops) == 1:
        lp = loops[0]
        inside = [n for n in walk(lp["body"]) if is_cell_test(n)]
        outside = [n for n in f.live_nodes() if is_cell_test(n) and not any(y is n for y in walk(lp))]
        cond = strip(lp["cond"]) if lp.get("cond") is not None else None
        trips = None
        if cond is not None and cond["k"] == "BinaryOperator" and cond["op"] in ("<", "<="):
            iv = access_path(f, cond["lhs"])
            ini = None
            if lp["k"] == "ForStmt" and lp.get("init") is not None and lp["init"]["k"] == "DeclStmt" and lp["init"]["decls"]:
                d0 = lp["init"]["decls"][0]
                if ("local", d0.get("d")) == iv:
                    ini = const_value(d0.get("init"))
            elif iv is not None and iv[0] == "local":
                defs = [rhs for tg2, rhs, w2 in definitions(f) if tg2 == iv and not any(y is w2 for y in walk(lp))]
                if len(defs) == 1:
                    ini = const_value(defs[0])
            bp = resolved_path(f, cond["rhs"])
            if ini is not None and bp is not None and bp[-1] == "tsize":
                trips = ("T", -ini + (1 if cond["op"] == "<=" else 0))       # tsize + k
        if trips is not None and inside:
            total_k = len(outside) + trips[1] * len(inside) if len(inside) == 1 else None
            if total_k is not None and total_k < 0:
                probs.append("the walk examines tsize%+d cells (%d before the loop, tsize%+d rounds): the last cell of a probe sequence is never "
                             "looked at, so an insert into / a lookup in a nearly full table fails although the cell exists" % (
                                 total_k, len(outside), trips[1]))
            kinds_.append("cells examined: tsize%+d" % (total_k if total_k is not None else 0))
    return {"kinds": kinds_}, probs


@rule("R-PROBE", 8, "double hashing: every insert and every lookup computes start = bitwisehash(w,len,tsize), stride = "
                    "step_value(w,len,tsize) and visits (start + i*stride) mod tsize for i = 1,2,..: the same cells in the same order")
def r_probe(db, rep):
    for rec, name in PROBE_FUNCS:
        f = method(db, rec, name)
        rep.visit(f)
        sig, probs = probe_signature(db, f)
        rep.inst(f.loc, "%s: %s" % (f.qn, ", ".join(sig["kinds"]) if sig else "no probe walk found"))
        rep.ob()
        for i, p in enumerate(probs):
            rep.viol("%s#probe-%d" % (f.qn, i), f.loc, "%s: %s; an insert and a lookup that disagree on the probe sequence lose stored strings" % (f.qn, p), f.qn)


def bucket_shape(poly_, bs_atom, bucket_atoms):
    """ID expression shape (B + c - 1) * bs + R with c in {0, 1}: coefficient of B*bs is 1, of bs alone is -1 or 0, R free of bs."""
    cb = None
    for m, c in poly_.items():
        if bs_atom in m:
            others = tuple(x for x in m if x != bs_atom)
            if len(others) == 0:
                if c not in (-1, 0):
                    return "constant multiple of bucketsize is %d" % c
            elif len(others) == 1:
                if c != 1:
                    return "bucket index is multiplied by %d*bucketsize" % c
                cb = others[0]
            else:
                return "non-linear use of bucketsize"
    if cb is None:
        return "no (bucket-1)*bucketsize term"
    if ("F:this.bucketsize",) not in poly_ and cb is not None:
        pass
    return None


@rule("R-BUCKET", 20, "front-coding ID arithmetic: locate forms IDs as (bucket-1)*bucketsize + offset, extract decomposes them with "
                      "1+(id-1)/bucketsize and (id-1)%bucketsize, the last bucket holds elements%bucketsize strings; rank operations are the identity")
def r_bucket(db, rep):
    BS = "F:this.bucketsize"
    for k in FC_KINDS:
        # extract: decomposition
        f = method(db, k, "extract")
        rep.visit(f)
        sb = SeqBuilder(db, f, "c", nosubst=True)
        want_b = canon(mk_op("+", C(1), mk_op("/", mk_op("-", ("param", 0), C(1)), ("field", ("this", "bucketsize")))))
        want_p = canon(mk_op("%", mk_op("-", ("param", 0), C(1)), ("field", ("this", "bucketsize"))))
        got = {}
        for n in f.live_nodes():
            if n["k"] == "DeclStmt":
                for d in n["decls"]:
                    if d.get("init") is not None and any(x["k"] == "DeclRefExpr" and x.get("dk") == "param" and x.get("pi") == 0 for x in walk(d["init"])):
                        got[d["n"]] = (canon(sb.sym(d["init"])), n)
        # the decomposition factored into a helper that receives the id: its assignments (also through out-parameters), with the
        # helper's parameter standing for the id
        for cl in f.calls():
            h = db.funcs.get(cl.get("f"))
            if h is None or h.body is None:
                continue
            obj = cl.get("obj")
            if obj is not None and strip(obj)["k"] != "CXXThisExpr":
                continue
            for j, a in enumerate(cl.get("args", [])):
                sa = strip(a)
                if not (sa["k"] == "DeclRefExpr" and sa.get("dk") == "param" and sa.get("pi") == 0):
                    continue
                hsb = SeqBuilder(db, h, "c", nosubst=True)
                hsb.env[("param", j)] = ("param", 0)
                for n in h.live_nodes():
                    e = None
                    if n["k"] == "DeclStmt":
                        for d in n["decls"]:
                            if d.get("init") is not None:
                                e = d["init"]
                                if any(x["k"] == "DeclRefExpr" and x.get("dk") == "param" and x.get("pi") == j for x in walk(e)):
                                    got["%s:%s" % (h.name, d["n"])] = (canon(hsb.sym(e)), n)
                    elif is_assignment(n) and n.get("op") == "=" and n.get("rhs") is not None:
                        e = n["rhs"]
                        if any(x["k"] == "DeclRefExpr" and x.get("dk") == "param" and x.get("pi") == j for x in walk(e)):
                            got["%s:%s" % (h.name, n.get("l"))] = (canon(hsb.sym(e)), n)
        rep.inst(f.loc, "%s: id -> (bucket, offset)" % f.qn)
        rep.ob()
        if not any(v[0] == want_b for v in got.values()):
            rep.viol("%s#bucket-of-id" % f.qn, f.loc, "%s does not compute the bucket of an id as 1 + (id-1)/bucketsize (found: %s)" % (
                f.qn, "; ".join("%s=%s" % (a, b[0]) for a, b in got.items())), f.qn)
        rep.ob()
        if not any(v[0] == want_p for v in got.values()):
            rep.viol("%s#offset-of-id" % f.qn, f.loc, "%s does not compute the in-bucket offset of an id as (id-1)%%bucketsize (found: %s)" % (
                f.qn, "; ".join("%s=%s" % (a, b[0]) for a, b in got.items())), f.qn)
        # locate / locatePrefix: ID forming expressions
        for opn in ("locate", "locatePrefix"):
            g = method(db, k, opn)
            rep.visit(g)
            sbg = SeqBuilder(db, g, "c", nosubst=True)
            exprs = []
            for n in g.live_nodes():
                e = None
                if n["k"] == "ReturnStmt" and n.get("value") is not None:
                    e = n["value"]
                elif is_assignment(n) and n["op"] in ("=", "+="):
                    e = n["rhs"]
                if e is not None and any(x["k"] == "MemberExpr" and x.get("n") == "bucketsize" for x in walk(e)):
                    se = strip(e)
                    if se["k"] == "BinaryOperator" and se["op"] in ("+", "-", "*") or se["k"] == "ParenExpr":
                        exprs.append((n, e))
            rep.inst(g.loc, "%s: %d id-forming expressions" % (g.qn, len(exprs)))
            for n, e in exprs:
                rep.ob()
                # keep every local symbolic
                for x in walk(e):
                    if x["k"] == "DeclRefExpr" and x.get("dk") == "local":
                        sbg.env[("local", x["d"])] = ("local", x["d"])
                pl = symx.poly(sbg.sym(e))
                if not any(BS in m for m in pl):
                    continue
                why = bucket_shape(pl, BS, None)
                if why:
                    rep.viol("%s#id-shape:%s" % (g.qn, canon(sbg.sym(e))), g.nloc(n),
                             "%s forms an ID as %s, which is not (bucket-1)*bucketsize + offset: %s" % (g.qn, canon(sbg.sym(e)), why), g.qn)
        # last bucket size
        for opn in ("locate", "locatePrefix", "extractPrefix"):
            g = method(db, k, opn)
            for n in g.live_nodes():
                if n["k"] == "IfStmt" and n.get("cond") is not None:
                    atoms_ = implied_atoms(n["cond"], True)
                    is_last = any(strip(c)["k"] == "BinaryOperator" and strip(c)["op"] == "==" and
                                  ("this", "buckets") in (access_path(g, strip(c)["lhs"]), access_path(g, strip(c)["rhs"])) for c, p in atoms_)
                    if not is_last:
                        continue
                    sbg = SeqBuilder(db, g, "c", nosubst=True)
                    want = canon(mk_op("%", ("field", ("this", "elements")), ("field", ("this", "bucketsize"))))
                    rep.ob()
                    rem = [c for c, p in atoms_ if any(x["k"] == "BinaryOperator" and x["op"] == "%" for x in walk(c))]
                    okc = any(canon(sbg.sym(strip(c)["lhs"])) == want or canon(sbg.sym(strip(c)["rhs"])) == want for c in rem if strip(c)["k"] == "BinaryOperator")
                    assigns = [w for lv, w in written_lvalues(g) if any(x is w for x in walk(n["then"]))]
                    oka = any(w.get("rhs") is not None and canon(sbg.sym(w["rhs"])) == want for w in assigns)
                    # the bucket compared with `buckets` is the one whose header was fetched last
                    bvars = [access_path(g, strip(c)["lhs"]) if access_path(g, strip(c)["rhs"]) == ("this", "buckets") else access_path(g, strip(c)["rhs"])
                             for c, p in atoms_ if strip(c)["k"] == "BinaryOperator" and strip(c)["op"] == "==" and
                             ("this", "buckets") in (access_path(g, strip(c)["lhs"]), access_path(g, strip(c)["rhs"]))]
                    npos = None
                    for c, p in atoms_:
                        if strip(c)["k"] == "BinaryOperator" and strip(c)["op"] == "==" and \
                                ("this", "buckets") in (access_path(g, strip(c)["lhs"]), access_path(g, strip(c)["rhs"])):
                            npos = g.cfg.position(strip(c))
                    fetch = None
                    for cl in g.calls():
                        if callee_name(cl) in ("getHeader", "decodeHeader") and cl.get("args"):
                            cp = g.cfg.position(cl)
                            if cp and npos and g.cfg.dominates(cp, npos):
                                if fetch is None or g.cfg.dominates(g.cfg.position(fetch), cp):
                                    fetch = cl
                    if fetch is not None and bvars:
                        rep.ob()
                        fb = access_path(g, fetch["args"][0])
                        if fb is not None and bvars[0] is not None and fb != bvars[0]:
                            rep.viol("%s#last-bucket-var" % g.qn, g.nloc(n),
                                     "%s fetches the header of one bucket (%s) but decides `is this the last, shorter bucket` on another variable (%s)" % (
                                         g.qn, fmt_path(g, fb), fmt_path(g, bvars[0])), g.qn)
                    if not (okc and oka):
                        rep.viol("%s#last-bucket" % g.qn, g.nloc(n),
                                 "%s: the size of the last bucket is not taken as elements %% bucketsize under `bucket == buckets && elements %% bucketsize != 0`" % g.qn, g.qn)
    # rank operations
    for k in ORDERED_KINDS + ["StringDictionaryXBW"]:
        lr = method(db, k, "locateRank")
        er = method(db, k, "extractRank")
        rep.visit(lr)
        rep.inst(lr.loc, "%s / extractRank" % lr.qn)
        rep.ob()
        rets = [n for n in lr.live_nodes() if n["k"] == "ReturnStmt"]
        if k != "StringDictionaryXBW":
            if len(rets) != 1 or access_path(lr, rets[0].get("value")) != ("param", 0):
                rep.viol("%s#not-identity" % lr.qn, lr.loc, "%s is not the identity on ranks although IDs are ranks in this kind" % lr.qn, lr.qn)
            rep.ob()
            ok = False
            for n in er.live_nodes():
                if n["k"] == "ReturnStmt" and n.get("value") is not None:
                    c = strip(n["value"])
                    if c["k"] == "CXXMemberCallExpr" and callee_name(c) == "extract" and access_path(er, c["args"][0]) == ("param", 0) and \
                            access_path(er, c["args"][1]) == ("param", 1):
                        ok = True
            if not ok:
                rep.viol("%s#not-extract" % er.qn, er.loc, "%s does not delegate to extract(rank, strLen)" % er.qn, er.qn)


@rule("R-FMMAP", 4, "FM-index row <-> ID mapping: extract and both string iterators map id == elements to row 2 and every other id to "
                    "id+3; locate and locateP shift rows by -2")
def r_fmmap(db, rep):
    sites = [("StringDictionaryFMINDEX", "extract", ("param", 0), ("this", "elements")),
             ("IteratorDictStringFMINDEX", "next", ("this", "processed"), ("this", "last")),
             ("IteratorDictStringFMINDEXDuplicates", "next", None, ("this", "last"))]
    for rec, name, idp, lastp in sites:
        f = method(db, rec, name)
        rep.visit(f)
        rep.inst(f.loc, "%s: id -> BWT row" % f.qn)
        rep.ob()
        found = False
        for n in f.live_nodes():
            if n["k"] != "IfStmt" or n.get("cond") is None:
                continue
            c = strip(n["cond"])
            if c["k"] != "BinaryOperator" or c["op"] != "==":
                continue
            l, r = access_path(f, c["lhs"]), access_path(f, c["rhs"])
            if lastp not in (l, r):
                continue
            idv = l if r == lastp else r
            t_as = [w for lv, w in written_lvalues(f) if any(x is w for x in walk(n["then"]))]
            e_as = [w for lv, w in written_lvalues(f) if n.get("else") is not None and any(x is w for x in walk(n["else"]))]
            sb = SeqBuilder(db, f, "c", nosubst=True)
            if idv and idv[0] == "local":
                sb.env[idv] = ("local", idv[1])
            okt = any(const_value(w.get("rhs")) == 2 for w in t_as)
            oke = False
            for w in e_as:
                if w.get("op") == "+=" and const_value(w.get("rhs")) == 3:
                    oke = True
                elif w.get("rhs") is not None:
                    pl = symx.poly(sb.sym(w["rhs"]))
                    if pl.get((), 0) == 3 and len(pl) == 2 and all(c == 1 for m, c in pl.items() if m):
                        oke = True
            found = True
            if not (okt and oke):
                rep.viol("%s#row-mapping" % f.qn, f.nloc(n), "%s does not map id == last to row 2 and any other id to row id+3" % f.qn, f.qn)
        # the same mapping written as a conditional expression: (x == last) ? 2 : x + 3
        for n in f.live_nodes():
            if n["k"] != "ConditionalOperator":
                continue
            c = strip(n["cond"])
            if c["k"] != "BinaryOperator" or c["op"] not in ("==", "!="):
                continue
            l, r = access_path(f, c["lhs"]), access_path(f, c["rhs"])
            if lastp not in (l, r):
                continue
            idv = l if r == lastp else r
            a, b = (n["then"], n["else"]) if c["op"] == "==" else (n["else"], n["then"])
            sb = SeqBuilder(db, f, "c", nosubst=True)
            if idv and idv[0] == "local":
                sb.env[idv] = ("local", idv[1])
            pl = symx.poly(sb.sym(b))
            found = True
            if not (const_value(a) == 2 and pl.get((), 0) == 3 and len(pl) == 2 and all(cf == 1 for m, cf in pl.items() if m)):
                rep.viol("%s#row-mapping" % f.qn, f.nloc(n), "%s does not map id == last to row 2 and any other id to row id+3" % f.qn, f.qn)
        if not found:
            rep.viol("%s#row-mapping-missing" % f.qn, f.loc, "%s lacks the `id == last ? 2 : id+3` row mapping" % f.qn, f.qn)
    # every FM-index string iterator is told the dictionary's last id (= elements): that id maps to row 2
    for g in db.methods_of("StringDictionaryFMINDEX"):
        for n in g.live_nodes():
            if n["k"] == "CXXNewExpr" and n.get("init") is not None:
                ce = strip(n["init"])
                if ce["k"] == "CXXConstructExpr" and ce.get("rec", "").startswith("IteratorDictStringFMINDEX"):
                    ct = db.funcs.get(ce.get("f"))
                    if ct is None:
                        continue
                    li = next((i for i, p in enumerate(ct.params) if p["n"] == "last"), None)
                    if li is None or li >= len(ce["args"]):
                        continue
                    rep.inst(g.nloc(n), "%s creates %s with last=%s" % (g.qn, ce["rec"], canon(SeqBuilder(db, g, "c", nosubst=True).sym(ce["args"][li]))))
                    rep.ob()
                    if access_path(g, ce["args"][li]) != ("this", "elements"):
                        rep.viol("%s#iterator-last" % g.qn, g.nloc(n),
                                 "%s passes %s as the iterator's last id; the id that maps to BWT row 2 is `elements`" % (
                                     g.qn, canon(SeqBuilder(db, g, "c", nosubst=True).sym(ce["args"][li]))), g.qn)
    # inverse direction: -2
    f = method(db, "StringDictionaryFMINDEX", "locate")
    rep.visit(f)
    rep.inst(f.loc, "%s: row -> id" % f.qn)
    rep.ob()
    sb = SeqBuilder(db, f, "c", nosubst=True)
    ok = False
    for n in f.live_nodes():
        if n["k"] == "ReturnStmt" and n.get("value") is not None and const_value(n["value"]) is None:
            v = strip(n["value"])
            for x in walk(v):
                if x["k"] == "DeclRefExpr" and x.get("dk") == "local":
                    sb.env[("local", x["d"])] = ("local", x["d"])
            pl = symx.poly(sb.sym(v))
            if pl.get((), 0) == -2 and len(pl) == 2:
                ok = True
    if not ok:
        rep.viol("%s#row-shift" % f.qn, f.loc, "%s does not return row-2 for the row reported by the index" % f.qn, f.qn)
    g = db.fn("SSA::locateP")
    rep.visit(g)
    rep.inst(g.loc, "SSA::locateP: rows -> ids")
    sbg = SeqBuilder(db, g, "c", nosubst=True)
    for tgt in (3, 4):   # *left, *right
        rep.ob()
        ok = False
        for lv, w in written_lvalues(g):
            s = strip(lv)
            if s["k"] == "UnaryOperator" and s["op"] == "*" and access_path(g, s["sub"]) == ("param", tgt - 1) and w.get("rhs") is not None:
                for x in walk(w["rhs"]):
                    if x["k"] == "DeclRefExpr" and x.get("dk") == "local":
                        sbg.env[("local", x["d"])] = ("local", x["d"])
                pl = symx.poly(sbg.sym(w["rhs"]))
                if pl.get((), 0) == -2 and len(pl) == 2:
                    ok = True
        if not ok:
            rep.viol("SSA::locateP#row-shift-%d" % tgt, g.loc, "SSA::locateP does not report %s as row-2" % g.params[tgt - 1]["n"], g.qn)


@rule("R-NOSORT", 6, "builders of the order-preserving kinds never reorder their input: no sort/shuffle/swap-based permutation of the "
                     "consumed strings is reachable from their constructors (the FM-index sorts suffixes, not strings: its ID order is fixed by R-FMMAP)")
def r_nosort(db, rep):
    for k in FC_KINDS + ["StringDictionaryRPDAC"]:
        ctors = [c for c in db.methods_of(k) if c.is_ctor and c.params and "Iterator" in c.tstr(c.params[0]["t"])]
        for c in ctors:
            clo, inst = db.rta([c])
            rep.visit(c)
            rep.inst(c.loc, "%s: %d functions on the build path" % (c.qn, len(clo)))
            for fid in sorted(clo):
                g = db.funcs[fid]
                if g.file.startswith("RePair/Coder/"):
                    continue      # the Re-Pair compressor orders *pairs* by frequency (heap), never the strings
                for n in g.calls():
                    rep.ob()
                    if n.get("ext") and callee_name(n) in ("sort", "stable_sort", "qsort", "shuffle", "random_shuffle", "reverse", "partial_sort", "nth_element"):
                        rep.viol("%s#reorders-input:%s" % (c.qn, g.qn), g.nloc(n),
                                 "%s is on the build path of order-preserving kind %s (%s) and calls %s: IDs would no longer be lexicographic ranks" % (
                                     g.qn, k, " -> ".join(db.chain(clo, fid)[-3:]), callee_name(n)), g.qn)


@rule("R-GROW", 9, "growable buffers: the capacity guard in front of an append re-tests after growing (a `while`, not an `if`): one "
                   "doubling need not make room for the appended extent")
def r_grow(db, rep):
    for f in sorted(db.funcs.values(), key=lambda x: (x.file, x.line)):
        if f.file.startswith("libcds/"):
            continue
        for n in f.calls():
            if callee_name(n) != "Reallocate":
                continue
            rep.visit(f)
            # the statement `cap = Reallocate(&buf, cap)` and its controlling construct
            ctl = None
            for a in f.ancestors(n):
                if a["k"] in ("WhileStmt", "IfStmt", "ForStmt", "DoStmt"):
                    ctl = a
                    break
            buf = None
            a0 = strip(n["args"][0])
            if a0["k"] == "UnaryOperator" and a0["op"] == "&":
                buf = access_path(f, a0["sub"])
            cap = access_path(f, n["args"][1]) if len(n["args"]) > 1 else None
            bname = strip(a0["sub"]).get("n", "?") if a0["k"] == "UnaryOperator" else "?"
            rep.inst(f.nloc(n), "%s grows %s under %s" % (f.qn, bname, ctl["k"] if ctl else "no guard"))
            rep.ob()
            if ctl is None:
                continue
            mentions_cap = cap is not None and any(access_path(f, x) == cap for x in walk(ctl["cond"]) if x["k"] in ("DeclRefExpr", "MemberExpr"))
            if ctl["k"] == "IfStmt" and mentions_cap:
                rep.viol("%s#if-guard:%s" % (f.qn, bname), f.nloc(ctl),
                         "%s guards the growth of %s with `if`: after one doubling the buffer may still be too small for what is appended "
                         "next (small initial capacity, long bucket): heap overflow during construction" % (f.qn, bname), f.qn)


# ---------------------------------------------------------------------------------------------------
def _vbsize(v):
    n = 1
    while v > 127:
        v >>= 7
        n += 1
    return n


symx.KNOWN_FUNCS["vbsize"] = _vbsize


@rule("R-SLACK", 1, "PFC constructor (the front end of all five front-coding builders): the capacity guard's slack covers the largest "
                    "extent one iteration can append, for every string length and shared-prefix length (extent formulas extracted from "
                    "the append statements, maximised over the whole domain)")
def r_slack(db, rep):
    import itertools
    c = [f for f in db.methods_of("StringDictionaryPFC") if f.is_ctor and f.params][0]
    rep.visit(c)
    guard = None
    for n in c.live_nodes():
        if n["k"] == "WhileStmt" and any(callee_name(x) == "Reallocate" for x in walk(n["body"]) if x["k"] == "CallExpr"):
            guard = n
    if guard is None:
        raise AnalysisBroken("PFC constructor: capacity guard not found")
    cond = strip(guard["cond"])
    if cond["k"] != "BinaryOperator" or cond["op"] not in (">", ">="):
        raise AnalysisBroken("PFC constructor: capacity guard is not of the form used + slack > capacity")
    used = ("this", "bytesStrings")
    sb = SeqBuilder(db, c, "c", nosubst=True)
    # length variable: the out-argument of it->next(&len)
    lenv = None
    for n in c.calls():
        if callee_name(n) == "next" and n.get("args"):
            a = strip(n["args"][0])
            if a["k"] == "UnaryOperator" and a["op"] == "&":
                lenv = access_path(c, a["sub"])
    if lenv is None:
        raise AnalysisBroken("PFC constructor: length variable not found")
    LEN, LCP = ("local", lenv[1]), None
    sb.env[lenv] = LEN
    sb.env[used] = ("field", used)
    slack = mk_op("-", sb.sym(cond["lhs"]), ("field", used))
    # enclosing loop body: statements after the guard
    loop = next(a for a in c.ancestors(guard) if a["k"] in ("WhileStmt", "ForStmt"))
    body = loop["body"]["c"]
    after = body[body.index(guard) + 1:]
    paths = [[]]

    def expand(stmts, prefixes):
        for st in stmts:
            if st["k"] == "IfStmt":
                t = expand(st["then"]["c"] if st["then"]["k"] == "CompoundStmt" else [st["then"]], [list(p) for p in prefixes])
                e = expand((st["else"]["c"] if st["else"]["k"] == "CompoundStmt" else [st["else"]]) if st.get("else") else [], [list(p) for p in prefixes])
                prefixes = t + e
            elif st["k"] == "CompoundStmt":
                prefixes = expand(st["c"], prefixes)
            else:
                for p in prefixes:
                    p.append(st)
        return prefixes
    paths = expand(after, paths)
    # the shared-prefix variable: the out-argument of longestCommonPrefix, wherever in the iteration it is computed
    lcp0 = None
    for n in walk(loop["body"]):
        if n["k"] == "CallExpr" and callee_name(n) == "longestCommonPrefix" and len(n.get("args", [])) >= 4:
            a = strip(n["args"][3])
            if a["k"] == "UnaryOperator" and a["op"] == "&":
                lcp0 = access_path(c, a["sub"])
    if lcp0 is not None:
        sb.env[lcp0] = ("local", lcp0[1])
        slack = mk_op("-", sb.sym(cond["lhs"]), ("field", used))
    rep.inst(c.nloc(guard), "PFC constructor: slack %s, %d append paths per iteration" % (canon(slack), len(paths)))
    worst = None
    for pth in paths:
        off = C(0)          # bytesStrings - bytesStrings@guard
        ext = C(0)          # max index written + 1, relative to bytesStrings@guard
        lcp = lcp0

        def dst_off(e):
            """offset of a destination pointer expression textStrings + bytesStrings (+k)"""
            s = sb.sym(e)
            pl = symx.poly(s)
            return None

        for st in pth:
            for n in walk(st):
                k = n["k"]
                if k == "CallExpr" and callee_name(n) == "longestCommonPrefix":
                    a = strip(n["args"][3])
                    if a["k"] == "UnaryOperator" and a["op"] == "&":
                        lcp = access_path(c, a["sub"])
                        sb.env[lcp] = ("local", lcp[1])
            s0 = strip(st)
            # appends
            for n in walk(st):
                if n["k"] == "CallExpr" and callee_name(n) in ("strcpy", "strncpy", "memcpy"):
                    d = strip(n["args"][0])
                    if any(access_path(c, x) == ("this", "textStrings") for x in walk(d) if x["k"] == "MemberExpr"):
                        if callee_name(n) == "strcpy":
                            size = mk_op("+", LEN, C(1))       # copies the terminator too
                        else:
                            size = sb.sym(n["args"][2])
                        ext = ("call", "max", (ext, mk_op("+", off, size)))
                if n["k"] == "CallExpr" and callee_name(n) == "encode" and n.get("frec") == "VByte":
                    size = ("call", "vbsize", (sb.sym(n["args"][0]),))
                    ext = ("call", "max", (ext, mk_op("+", off, size)))
            if is_assignment(s0):
                lp = access_path(c, s0["lhs"])
                sl = strip(s0["lhs"])
                if sl["k"] == "ArraySubscriptExpr" and access_path(c, sl["base"]) == ("this", "textStrings") and access_path(c, sl["idx"]) == used:
                    ext = ("call", "max", (ext, mk_op("+", off, C(1))))
                if lp == used and s0["op"] == "+=":
                    r = strip(s0["rhs"])
                    if r["k"] == "CallExpr" and callee_name(r) == "encode":
                        off = mk_op("+", off, ("call", "vbsize", (sb.sym(r["args"][0]),)))
                    else:
                        off = mk_op("+", off, sb.sym(s0["rhs"]))
            if s0["k"] == "UnaryOperator" and s0["op"] == "++" and access_path(c, s0["sub"]) == used:
                off = mk_op("+", off, C(1))
        symx.KNOWN_FUNCS.setdefault("max", lambda a, b: max(a, b))
        rep.ob()
        # maximise over the domain: len 1..300 (and a few large), 0 <= lcp <= len
        for ln in list(range(1, 200)) + [255, 256, 1000, 20000]:
            for lc in (range(0, ln + 1) if lcp is not None else [0]):
                val = {LEN: ln, ("field", used): 1000}     # the fill level cancels out of both sides
                if lcp is not None:
                    val[("local", lcp[1])] = lc
                e = symx.evaluate(ext, val)
                sv = symx.evaluate(slack, val)
                if e is None or sv is None:
                    continue
                if e > sv and (worst is None or (e - sv) > worst[0]):
                    worst = (e - sv, ln, lc, e, sv, canon(ext))
    if worst is not None:
        rep.viol("StringDictionaryPFC::StringDictionaryPFC#slack", c.nloc(guard),
                 "the PFC constructor guarantees %s free bytes before an iteration but can append %d bytes (string length %d, shared prefix %d): "
                 "when the buffer is filled to the guard's limit the last %d byte(s) land past textStrings" % (
                     canon(slack), worst[3], worst[1], worst[2], worst[0]), c.qn,
                 {"slack": canon(slack), "witness_len": worst[1], "witness_lcp": worst[2], "extent": worst[3]})


def _and_atoms(c):
    c = strip(c)
    if c["k"] == "BinaryOperator" and c["op"] == "&&":
        return _and_atoms(c["lhs"]) + _and_atoms(c["rhs"])
    return [c]


@rule("R-VBYTE", 4, "variable-byte codec: encoder and decoder (VByte::encode/decode and the encodeVB2/decodeVB2 copies) agree on the group "
                    "width, the payload mask and the terminator bit: mask = 2^shift - 1, flag = 2^shift, threshold = mask")
def r_vbyte(db, rep):
    groups = [("VByte::encode", "VByte::decode"), ("encodeVB2", "decodeVB2")]
    for en, dn in groups:
        enc, dec = db.fn(en), db.fn(dn)
        consts = {}
        has_shift_ops = {}
        for role, f in (("enc", enc), ("dec", dec)):
            rep.visit(f)
            shifts, masks, flags, thresh = set(), set(), set(), set()
            # locals used as a shift amount
            shiftvars = {access_path(f, n["rhs"]) for n in f.live_nodes()
                         if n["k"] in ("BinaryOperator", "CompoundAssignOperator") and n["op"] in ("<<", ">>", "<<=", ">>=")
                         and const_value(n["rhs"]) is None and access_path(f, n["rhs"]) is not None}
            for n in f.live_nodes():
                if n["k"] in ("BinaryOperator", "CompoundAssignOperator"):
                    op = n["op"]
                    cv = const_value(n["rhs"])
                    if op in (">>=", "<<=") and cv is not None:
                        shifts.add(cv)
                    if op == "+=" and cv is not None and access_path(f, n["lhs"]) in shiftvars:
                        shifts.add(cv)
                    if op == "&" and cv is not None:
                        (flags if cv & (cv - 1) == 0 else masks).add(cv)
                    if op == "|" and cv is not None:
                        flags.add(cv)
                    if op == ">" and cv is not None:
                        thresh.add(cv)
            has_shift_ops[role] = any(n["k"] in ("BinaryOperator", "CompoundAssignOperator") and n["op"] in ("<<", ">>", "<<=", ">>=")
                                      for n in f.live_nodes())
            consts[role] = (shifts, masks, flags, thresh)
            rep.inst(f.loc, "%s: shift %s mask %s flag %s threshold %s" % (f.qn, sorted(shifts), sorted(masks), sorted(flags), sorted(thresh)))
        es, em, ef, et = consts["enc"]
        ds, dm, df, dt = consts["dec"]
        rep.ob()
        problems = []
        # a side that is not written with shifts and masks at all (say, a table-driven encoder) gives no constants to compare:
        # that is undecided, not a disagreement
        if (not es and not has_shift_ops["enc"]) or (not ds and not has_shift_ops["dec"]):
            rep.notes.append("%s / %s: %s is not written with shifts: constants not compared (undecided)" % (
                en, dn, "the encoder" if not es else "the decoder"))
        elif len(es) != 1 or es != ds:
            problems.append("group widths differ (encoder shifts by %s, decoder by %s)" % (sorted(es), sorted(ds)))
        else:
            w = next(iter(es))
            if (em and em != {(1 << w) - 1}) or (dm and dm != {(1 << w) - 1}):
                problems.append("payload mask is not 2^%d-1 on both sides (encoder %s, decoder %s)" % (w, sorted(em), sorted(dm)))
            if (ef and ef != {1 << w}) or (df and df != {1 << w}):
                problems.append("terminator bit is not 2^%d on both sides (encoder %s, decoder %s)" % (w, sorted(ef), sorted(df)))
            if et and et != {(1 << w) - 1}:
                problems.append("continuation threshold is %s, not 2^%d-1" % (sorted(et), w))
        for i, pr in enumerate(problems):
            rep.viol("%s<->%s#%d" % (en, dn, i), enc.loc, "%s / %s: %s: some values do not decode to what was encoded" % (en, dn, pr), enc.qn)
        # the decoder's continuation loop ends on the terminator bit; any additional bound must still admit the
        # ceil(32/w)-1 continuation groups the encoder can emit for a 32-bit value
        if len(ds) == 1:
            w = next(iter(ds))
            need = -(-32 // w) - 1
            for lp in dec.live_nodes():
                if lp["k"] not in ("WhileStmt", "ForStmt", "DoStmt") or lp.get("cond") is None:
                    continue
                atoms = _and_atoms(lp["cond"])
                if not any(any(x["k"] == "BinaryOperator" and x["op"] == "&" and const_value(x["rhs"]) == (1 << w) for x in walk(a)) for a in atoms):
                    continue
                for a in atoms:
                    a = strip(a)
                    if any(x["k"] == "BinaryOperator" and x["op"] == "&" and const_value(x["rhs"]) == (1 << w) for x in walk(a)):
                        continue
                    rep.ob()
                    ok = None
                    if a["k"] == "BinaryOperator" and a["op"] in ("<", "<=") and const_value(a["rhs"]) is not None:
                        v = access_path(dec, a["lhs"])
                        step = None
                        for lv, wr in written_lvalues(dec):
                            if access_path(dec, lv) == v and any(y is wr for y in walk(lp["body"])):
                                if wr["k"] == "UnaryOperator" and wr["op"] == "++":
                                    step = 1
                                elif wr.get("op") == "+=" and const_value(wr.get("rhs")) is not None:
                                    step = const_value(wr["rhs"])
                        if step:
                            K = const_value(a["rhs"]) + (1 if a["op"] == "<=" else 0)
                            ok = -(-K // step) >= need
                    if ok is None:
                        rep.notes.append("%s: extra loop condition at %s not understood (undecided)" % (dn, dec.nloc(lp)))
                    elif not ok:
                        rep.viol("%s#loop-bound" % dn, dec.nloc(lp),
                                 "%s stops after fewer than %d continuation groups although the encoder emits up to %d for a 32-bit value: "
                                 "large values are truncated and the byte count differs from the encoder's" % (dn, need, need), dec.qn)


# ---------------------------------------------------------------------------------------------------
def _is_byte_load(f, n):
    """expression denotes one byte of a string: subscript / deref of uchar*/char*, or a value explicitly cast to a byte type"""
    s = n
    while isinstance(s, dict) and s["k"] in ("ParenExpr", "ImplicitCastExpr"):
        s = s.get("sub")
    if not isinstance(s, dict):
        return None
    t = f.type(s)
    if s["k"] in EXPLICIT_CASTS and t and t["bits"] == 8:
        return t
    if s["k"] in ("ArraySubscriptExpr",) or (s["k"] == "UnaryOperator" and s["op"] == "*"):
        if t and t["bits"] == 8:
            return t
    return None


@rule("R-BYTEORDER", 6, "string comparators order bytes as unsigned: a byte difference that steers a search is computed from unsigned "
                        "bytes in int, never from `char` operands and never narrowed through a `char` variable")
def r_byteorder(db, rep):
    for f in sorted(db.funcs.values(), key=lambda x: (x.file, x.line)):
        if f.file.startswith("libcds/") or not f.body:
            continue
        rt = f.types[f.raw["ret"]]
        if rt["kind"] != "int":
            continue
        subs = []
        for n in f.live_nodes():
            if n["k"] == "BinaryOperator" and n["op"] == "-":
                a, b = _is_byte_load(f, n["lhs"]), _is_byte_load(f, n["rhs"])
                if a is not None and b is not None:
                    subs.append((n, a, b))
        if not subs:
            continue
        rep.visit(f)
        for n, a, b in subs:
            # is the difference returned (directly, or through a local)?
            par = f.parent(n)
            while par is not None and par["k"] in TRANSPARENT | EXPLICIT_CASTS:
                par = f.parent(par)
            via = None
            returned = par is not None and par["k"] == "ReturnStmt"
            if par is not None and par["k"] == "DeclStmt":
                pass
            # local initialised / assigned with the difference and returned
            for d in f.live_nodes():
                if d["k"] == "DeclStmt":
                    for v in d["decls"]:
                        if v.get("init") is not None and any(x is n for x in walk(v["init"])):
                            via = v
            if is_assignment(par or {}) and strip(par["rhs"]) is n:
                via = {"d": access_path(f, par["lhs"])[1] if access_path(f, par["lhs"]) else None, "t": strip(par["lhs"]).get("t"), "n": strip(par["lhs"]).get("n")}
            if not returned and via is None:
                continue
            rep.inst(f.nloc(n), "%s: byte difference %s" % (f.qn, "returned" if returned else "stored in " + str(via.get("n"))))
            rep.ob()
            for side, t in (("left", a), ("right", b)):
                if t["kind"] == "int":      # plain / signed char
                    rep.viol("%s#signed-byte-%s" % (f.qn, side), f.nloc(n),
                             "%s compares string bytes as signed `char` (%s operand): bytes >= 0x80 sort before ASCII, so binary searches and "
                             "bucket scans over such data go the wrong way (IDs are unsigned-byte ranks)" % (f.qn, side), f.qn)
            if via is not None and "t" in via and via["t"] is not None:
                vt = f.types[via["t"]]
                rep.ob()
                if vt["bits"] == 8:
                    rep.viol("%s#difference-narrowed" % f.qn, f.nloc(n),
                             "%s stores a byte difference in an 8-bit variable (%s): differences of 128 or more change sign" % (f.qn, via.get("n")), f.qn)


@rule("R-SETFIELD", 2, "LogSequence::set_field replaces a field: every store into the data array has the form (old & ~mask) | new bits, "
                       "never a bare OR (a field that already holds a value would keep its old bits)")
def r_setfield(db, rep):
    f = method(db, "LogSequence", "set_field")
    rep.visit(f)
    for lv, w in written_lvalues(f):
        s = strip(lv)
        if s["k"] != "ArraySubscriptExpr" or access_path(f, s["base"]) != ("param", 0):
            continue
        rep.inst(f.nloc(w), "LogSequence::set_field stores into data[%s]" % canon(SeqBuilder(db, f, "c", nosubst=True).sym(s["idx"])))
        rep.ob()
        ok = False
        if w.get("op") == "=" and w.get("rhs") is not None:
            r = strip(w["rhs"])
            if r["k"] == "BinaryOperator" and r["op"] == "|":
                for side in (r["lhs"], r["rhs"]):
                    x = strip(side)
                    if x["k"] == "BinaryOperator" and x["op"] == "&":
                        for y in (x["lhs"], x["rhs"]):
                            ys = strip(y)
                            if ys["k"] == "ArraySubscriptExpr" and access_path(f, ys["base"]) == ("param", 0) and \
                                    canon(SeqBuilder(db, f, "c", nosubst=True).sym(ys["idx"])) == canon(SeqBuilder(db, f, "c", nosubst=True).sym(s["idx"])):
                                ok = True
        if not ok:
            rep.viol("LogSequence::set_field#store-%s" % canon(SeqBuilder(db, f, "c", nosubst=True).sym(s["idx"])), f.nloc(w),
                     "LogSequence::set_field writes data[..] without first clearing the field's bits ((old & mask) | new): overwriting a position "
                     "leaves stale bits of the previous value", f.qn)


@rule("R-SCANEXIT", 10, "sibling agreement of the five front-coding kinds: every in-bucket scan (locate, searchPrefix) leaves its loop as "
                        "soon as the decoded string shares less with its predecessor than the query shares with the current candidate "
                        "(`shared-with-previous < shared-with-query -> stop`); without it a later string that merely repeats the tail can match")
def r_scanexit(db, rep):
    for k in FC_KINDS:
        for opn in ("locate", "searchPrefix"):
            f = method(db, k, opn)
            rep.visit(f)
            # the accumulator passed by address to longestCommonPrefix, and the loop around such a call
            acc = None
            for n in f.calls():
                if callee_name(n) == "longestCommonPrefix" and len(n.get("args", [])) >= 4:
                    a = strip(n["args"][3])
                    if a["k"] == "UnaryOperator" and a["op"] == "&":
                        acc = access_path(f, a["sub"])
            loops = [n for n in f.live_nodes() if n["k"] in ("ForStmt", "WhileStmt", "DoStmt") and
                     any(x["k"] == "CallExpr" and callee_name(x) == "longestCommonPrefix" for x in walk(n["body"]))]
            if acc is None or not loops:
                raise AnalysisBroken("%s: scan loop with longestCommonPrefix not found" % f.qn)
            for lp in loops:
                rep.inst(f.nloc(lp), "%s: in-bucket scan loop" % f.qn)
                rep.ob()
                ok = False
                for n in walk(lp["body"]):
                    if n["k"] == "IfStmt" and n.get("cond") is not None:
                        c = strip(n["cond"])
                        if c["k"] == "BinaryOperator" and c["op"] in ("<", ">"):
                            l, r = access_path(f, c["lhs"]), access_path(f, c["rhs"])
                            small, big = (l, r) if c["op"] == "<" else (r, l)
                            if big == acc and small is not None and small != acc and small[0] == "local":
                                th = n["then"]
                                leaves = any(x["k"] in ("BreakStmt", "ReturnStmt") for x in walk(th))
                                if leaves:
                                    ok = True
                if not ok:
                    rep.viol("%s#scan-without-early-exit" % f.qn, f.nloc(lp),
                             "%s scans a bucket without the `shared-with-previous < shared-with-query -> stop` exit its siblings have: a string "
                             "further down the bucket whose suffix happens to equal the query's tail is accepted (false positive)" % f.qn, f.qn)


@rule("R-SAMPLECOUNT", 3, "FM-index suffix samples: the allocation, the save, the load and the dictionary's position->ID conversion loop all "
                          "use the same count (n+1)/step+1")
def r_samplecount(db, rep):
    sites = []
    bw = db.fn("SSA::build_bwt")
    sv = db.fn("SSA::save")
    ld = db.fn("SSA::load")
    bs = db.fn("StringDictionaryFMINDEX::build_ssa")

    def norm(f, e, nmap):
        sbx = SeqBuilder(db, f, "c", nosubst=True)

        def seed(expr):
            for x in walk(expr):
                p = access_path(f, x) if x["k"] in ("DeclRefExpr", "MemberExpr") else None
                if p is not None and p[-1] in nmap:
                    sbx.env[p] = ("global", nmap[p[-1]])
                elif p is not None and x["k"] == "DeclRefExpr" and x.get("n") in nmap:
                    sbx.env[p] = ("global", nmap[x["n"]])
        seed(e)
        bind_single_def_locals(sbx, e, seed)
        return canon(sbx.sym(e))
    # allocation in build_bwt
    for lv, w in written_lvalues(bw):
        if access_path(bw, lv) == ("this", "suff_sample") and w.get("rhs") is not None and strip(w["rhs"])["k"] == "CXXNewExpr":
            sites.append((bw, w, norm(bw, strip(w["rhs"])["size"], {"n": "N", "samplesuff": "S"}), "allocation"))
    for f, role in ((sv, "save"), (ld, "load")):
        for n in f.calls():
            if callee_name(n) in ("saveValue", "loadValue"):
                args = n.get("args", [])
                if role == "save" and len(args) == 3 and access_path(f, args[1]) == ("this", "suff_sample"):
                    sites.append((f, n, norm(f, args[2], {"n": "N", "samplesuff": "S"}), role))
                if role == "load" and len(args) == 2:
                    par = f.parent(n)
                    while par is not None and not is_assignment(par):
                        par = f.parent(par)
                    if par is not None and access_path(f, par["lhs"]) and access_path(f, par["lhs"])[-1] == "suff_sample":
                        sites.append((f, n, norm(f, args[1], {"n": "N", "samplesuff": "S"}), role))
    # conversion loop in build_ssa: the loop that rewrites suff_sample[...] entries; its trip count in either spelling
    #   for (i = 0; i < COUNT; i++) suff_sample[i] = ...      |      for (p = suff_sample, last = p + COUNT; p != last; p++) *p = ...
    conv = 0
    for lp in bs.live_nodes():
        if lp["k"] not in ("ForStmt", "WhileStmt") or lp.get("cond") is None:
            continue
        touches = False
        for lv, w in written_lvalues(bs):
            if not any(x is w for x in walk(lp.get("body") or lp)):
                continue
            sl = strip(lv)
            base = sl.get("base") if sl["k"] == "ArraySubscriptExpr" else (sl.get("sub") if sl["k"] == "UnaryOperator" and sl["op"] == "*" else None)
            bp = resolved_path(bs, base) if base is not None else None
            if bp is not None and bp[0] == "local" and len(bp) == 2:
                # a cursor pointer that the loop advances: where does it start?
                for dn in bs.live_nodes():
                    if dn["k"] == "DeclStmt":
                        for d0 in dn["decls"]:
                            if d0.get("d") == bp[1] and d0.get("init") is not None:
                                bp = resolved_path(bs, d0["init"]) or bp
            if bp is not None and bp[-1] == "suff_sample":
                touches = True
        if not touches:
            continue
        c = strip(lp["cond"])
        if c["k"] != "BinaryOperator":
            continue
        bound = None
        if c["op"] in ("<", "<="):
            bound = c["rhs"]
        elif c["op"] == "!=":
            # pointer range: the end pointer's single definition is base + COUNT
            for side in (c["lhs"], c["rhs"]):
                ss = strip(side)
                if ss["k"] == "DeclRefExpr" and ss.get("dk") == "local":
                    ini = single_def_init(bs, ss["d"])
                    ini = strip(ini) if ini is not None else None
                    if ini is not None and ini["k"] == "BinaryOperator" and ini["op"] == "+":
                        bound = ini["rhs"]
        if bound is not None:
            conv += 1
            sites.append((bs, lp, norm(bs, bound, {"len": "N", "BWTsampling": "S"}), "conversion loop"))
    if conv == 0:
        rep.notes.append("R-SAMPLECOUNT: the position->ID conversion loop of build_ssa is not in a recognised form: its count is not compared")
    if len(sites) < 3:
        raise AnalysisBroken("R-SAMPLECOUNT: expected the allocation, save and load sample-count sites, found %d" % len(sites))
    ref = sites[0][2]
    for f, n, c, role in sites:
        rep.visit(f)
        rep.inst(f.nloc(n), "%s (%s): %s" % (f.qn, role, c))
        rep.ob()
        if c != ref:
            rep.viol("%s#sample-count-%s" % (f.qn, role.replace(" ", "-")), f.nloc(n),
                     "%s uses %s samples in its %s where SSA::build_bwt allocates %s: entries are left unconverted / read past / not saved" % (
                         f.qn, c, role, ref), f.qn)


@rule("R-COUNTERWIDTH", 3, "a local counter narrower than 32 bits that a loop increments (or a local fed from one) is not what a wider length / size "
                           "parameter or field receives: the count wraps at 256 / 65536 long before the receiver's range is used up")
def r_counterwidth(db, rep):
    for f in sorted(db.funcs.values(), key=lambda x: (x.file, x.line)):
        if not f.body or f.file.startswith("libcds/"):
            continue
        narrow = {}
        for n in f.live_nodes():
            if n["k"] == "DeclStmt":
                for d in n["decls"]:
                    if "d" in d and "t" in d:
                        t = f.types[d["t"]]
                        if t.get("kind") in ("int", "uint") and (t.get("bits") or 0) in (8, 16):
                            narrow[d["d"]] = (d["n"], t)
        if not narrow:
            continue
        counters = set()
        for lv, w in written_lvalues(f):
            p = access_path(f, lv)
            if p and p[0] == "local" and len(p) == 2 and p[1] in narrow and \
                    ((w["k"] == "UnaryOperator" and w["op"] == "++") or w.get("op") == "+=") and \
                    any(a["k"] in ("ForStmt", "WhileStmt", "DoStmt") for a in f.ancestors(w)):
                counters.add(p[1])
        # narrow locals assigned from a counter inherit the problem (maxseq = currentseq)
        changed = True
        while changed:
            changed = False
            for lv, w in written_lvalues(f):
                p = access_path(f, lv)
                if p and p[0] == "local" and len(p) == 2 and p[1] in narrow and p[1] not in counters and w.get("op") == "=" and w.get("rhs") is not None:
                    r = access_path(f, w["rhs"])
                    if r and r[0] == "local" and len(r) == 2 and r[1] in counters:
                        counters.add(p[1])
                        changed = True
        for d in sorted(counters):
            rep.visit(f)
            rep.inst(f.loc, "%s: %d-bit loop counter %s" % (f.qn, narrow[d][1]["bits"], narrow[d][0]))
            for c in f.calls():
                g = db.funcs.get(c.get("f"))
                for i, a in enumerate(c.get("args", [])):
                    sa = strip(a)
                    if sa["k"] == "DeclRefExpr" and sa.get("dk") == "local" and sa.get("d") == d:
                        rep.ob()
                        pt = f.type(a)          # type after the implicit conversion to the parameter type
                        if pt and pt.get("kind") in ("int", "uint") and (pt.get("bits") or 0) > narrow[d][1]["bits"]:
                            rep.viol("%s#narrow-counter-%s" % (f.qn, narrow[d][0]), f.nloc(c),
                                     "%s counts in the %d-bit local %s and hands the result to %s as a %d-bit %s: longer inputs wrap the count and the "
                                     "receiver is sized for the wrapped value" % (
                                         f.qn, narrow[d][1]["bits"], narrow[d][0], c.get("fn"), pt["bits"],
                                         (g.params[i]["n"] if g is not None and i < len(g.params) else "argument")), f.qn)
