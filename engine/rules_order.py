"""R-CMPSIGN, R-BSEARCH: orientation of three-way string comparisons and the direction binary searches take on them.

Polarity analysis.  A `query term` of a function is a byte loaded through one of its own char-pointer parameters, or that
pointer handed to a comparison primitive.  The polarity of an int expression is the set of signs with which query terms of
parameter i enter it:  a - b  ->  pol(a) u flip(pol(b));  -a -> flip;  strcmp/strncmp/memcmp(a, b, ..) -> + for a, - for b;
a call to a repo function -> its summary mapped through the arguments;  a local -> union over all its assignments.
A comparator whose summary holds both signs for one parameter answers `stored < query` on one path and `query < stored`
on another: whoever steers a search by the sign goes the wrong way on one of them."""
from core import *
from rulebase import rule

PRIMS = {"strcmp": (0, 1), "strncmp": (0, 1), "memcmp": (0, 1)}
FLIP = {"+": "-", "-": "+"}


def flip(s):
    return {(i, FLIP[x]) for i, x in s}


def is_char_ptr(f, t):
    t = f.types[t] if isinstance(t, int) else t
    if not t or t["kind"] != "ptr":
        return False
    pt = f.pointee(t)
    return bool(pt) and pt["kind"] in ("int", "uint") and pt.get("bits") == 8


def ptr_param(f, n):
    """Index of the char-pointer parameter the pointer expression n is derived from (p, p + k, &p[k], (T*)p, local copy)."""
    n = strip(n)
    k = n["k"]
    if k == "DeclRefExpr":
        if n.get("dk") == "param" and is_char_ptr(f, f.params[n["pi"]]["t"]):
            return n["pi"]
        return None
    if k == "BinaryOperator" and n["op"] in ("+", "-"):
        a = ptr_param(f, n["lhs"])
        return a if a is not None else (ptr_param(f, n["rhs"]) if n["op"] == "+" else None)
    if k == "UnaryOperator" and n["op"] == "&":
        s = strip(n["sub"])
        if s["k"] == "ArraySubscriptExpr":
            return ptr_param(f, s["base"])
    return None


def byte_load_param(f, n):
    n = strip(n)
    if n["k"] == "ArraySubscriptExpr":
        return ptr_param(f, n["base"])
    if n["k"] == "UnaryOperator" and n["op"] == "*":
        return ptr_param(f, n["sub"])
    return None


class Polarity:
    def __init__(self, db):
        self.db = db
        self.summary = {}
        self.cands = [f for f in db.funcs.values() if f.body and not f.file.startswith("libcds/")
                      and f.types[f.raw["ret"]]["kind"] == "int" and f.types[f.raw["ret"]].get("bits") == 32
                      and any(is_char_ptr(f, p["t"]) for p in f.params)]
        for f in self.cands:
            self.summary[f.id] = set()
        changed = True
        self.rounds = 0
        while changed and self.rounds < 20:
            changed = False
            self.rounds += 1
            for f in self.cands:
                s = set()
                for n in f.live_nodes():
                    if n["k"] == "ReturnStmt" and n.get("value") is not None:
                        s |= self.pol(f, n["value"], set())
                if s != self.summary[f.id]:
                    self.summary[f.id] = s
                    changed = True

    def assigns(self, f, d):
        out = []
        for n in f.live_nodes():
            if n["k"] == "DeclStmt":
                for v in n["decls"]:
                    if v.get("d") == d and v.get("init") is not None:
                        out.append(v["init"])
            elif is_assignment(n) and n.get("op") == "=":
                s = strip(n["lhs"])
                if s["k"] == "DeclRefExpr" and s.get("d") == d and s.get("dk") == "local":
                    out.append(n["rhs"])
        return out

    def pol(self, f, n, seen):
        n = strip(n)
        k = n["k"]
        p = byte_load_param(f, n)
        if p is not None:
            return {(p, "+")}
        if k == "BinaryOperator":
            if n["op"] == "-":
                return self.pol(f, n["lhs"], seen) | flip(self.pol(f, n["rhs"], seen))
            if n["op"] in ("+", ","):
                return (self.pol(f, n["lhs"], seen) if n["op"] == "+" else set()) | self.pol(f, n["rhs"], seen)
            return set()
        if k == "UnaryOperator":
            if n["op"] == "-":
                return flip(self.pol(f, n["sub"], seen))
            if n["op"] == "+":
                return self.pol(f, n["sub"], seen)
            return set()
        if k == "ConditionalOperator":
            return self.pol(f, n["then"], seen) | self.pol(f, n["else"], seen)
        if k == "DeclRefExpr" and n.get("dk") == "local":
            d = n["d"]
            if d in seen:
                return set()
            out = set()
            for a in self.assigns(f, d):
                out |= self.pol(f, a, seen | {d})
            return out
        if k in ("CallExpr", "CXXMemberCallExpr"):
            name = callee_name(n)
            args = n.get("args", [])
            out = set()
            if name in PRIMS and n.get("f") not in self.db.funcs:
                for idx, sign in zip(PRIMS[name], "+-"):
                    if idx < len(args):
                        p = ptr_param(f, args[idx])
                        if p is not None:
                            out.add((p, sign))
                return out
            for t in self.db.call_targets(f, n):
                for (gi, sign) in self.summary.get(t, ()):
                    if gi < len(args):
                        p = ptr_param(f, args[gi])
                        if p is not None:
                            out.add((p, sign))
            return out
        return set()

    def var_pol(self, f, d):
        """Signs with which the QUERY enters local d. With several char-pointer parameters in play, the query is the one
        the function (and its callees) never writes through - the other is a decode buffer holding the stored string."""
        out = set()
        for a in self.assigns(f, d):
            out |= self.pol(f, a, {d})
        idx = {i for i, _ in out}
        if len(idx) > 1:
            import effects
            E = effects.get_effects(self.db)
            written = {r[1] for (r, l) in E.sum[f.id].mod if r[0] == "param"}
            keep = idx - written
            if keep and keep != idx:
                out = {(i, s) for i, s in out if i in keep}
        return out


_cache = {}


def get_polarity(db):
    if id(db) not in _cache:
        _cache.clear()
        _cache[id(db)] = Polarity(db)
    return _cache[id(db)]


def return_sites(P, f, pi):
    out = {"+": [], "-": []}
    for n in f.live_nodes():
        if n["k"] == "ReturnStmt" and n.get("value") is not None:
            for (i, s) in P.pol(f, n["value"], set()):
                if i == pi:
                    out[s].append(n.get("l"))
    return out


@rule("R-CMPSIGN", 5, "a three-way string comparator is oriented one way on all its paths: the bytes of its pattern parameter enter every "
                      "returned value with the same sign (difference operand order, negation, argument order of strcmp/memcmp, results "
                      "of nested comparators)")
def r_cmpsign(db, rep):
    P = get_polarity(db)
    for f in sorted(P.cands, key=lambda x: (x.file, x.line)):
        s = P.summary[f.id]
        if not s:
            continue
        rep.visit(f)
        for pi in sorted({i for i, _ in s}):
            signs = {x for i, x in s if i == pi}
            rep.inst(f.loc, "%s: parameter %s enters the result with sign %s" % (f.qn, f.params[pi]["n"], "/".join(sorted(signs))))
            rep.ob()
            if len(signs) > 1:
                sites = return_sites(P, f, pi)
                rep.viol("%s#mixed-orientation-%s" % (f.qn, f.params[pi]["n"]), f.loc,
                         "%s returns (stored - %s) on some paths (return at line %s) and (%s - stored) on others (line %s): callers that steer a "
                         "binary search or stop a scan on the sign of the result are misled on one of them"
                         % (f.qn, f.params[pi]["n"], ",".join(map(str, sorted(set(sites["-"])))), f.params[pi]["n"],
                            ",".join(map(str, sorted(set(sites["+"]))))), f.qn)
    rep.notes.append("polarity summaries: %d candidate int functions with a char* parameter, fixpoint after %d rounds" % (len(P.cands), P.rounds))


def bound_vars(f, cond):
    """(lower, upper) access paths of a search loop condition  L <= R | L < R | L < R - 1."""
    c = strip(cond)
    if c["k"] != "BinaryOperator" or c["op"] not in ("<", "<="):
        return None
    lo = access_path(f, c["lhs"])
    r = strip(c["rhs"])
    if r["k"] == "BinaryOperator" and r["op"] == "-" and const_value(r["rhs"]) is not None:
        r = strip(r["lhs"])
    hi = access_path(f, r)
    if lo is None or hi is None or lo == hi:
        return None
    return lo, hi


def sign_test(f, cond):
    """(local decl id, '>' | '<') for  v > 0, v < 0, 0 < v, 0 > v  (also >=1 / <= -1 are not used in this code base)."""
    c = strip(cond)
    if c["k"] != "BinaryOperator" or c["op"] not in ("<", ">", "<=", ">="):
        return None
    a, b = strip(c["lhs"]), strip(c["rhs"])
    op = c["op"][0]          # v >= 0 / v <= 0: same side as > / <, equality included
    if const_value(b) == 0 and a["k"] == "DeclRefExpr" and a.get("dk") == "local":
        return a["d"], op
    if const_value(a) == 0 and b["k"] == "DeclRefExpr" and b.get("dk") == "local":
        return b["d"], {"<": ">", ">": "<"}[op]
    return None


def top_assign_targets(f, stmt):
    """Access paths assigned by the statements of a branch (not descending into nested ifs/loops)."""
    out = []
    if stmt is None:
        return out
    stmts = stmt.get("c", []) if stmt["k"] == "CompoundStmt" else [stmt]
    for s in stmts:
        x = strip(s)
        if is_assignment(x):
            p = access_path(f, x["lhs"])
            if p is not None:
                out.append((p, x))
    return out


@rule("R-BSEARCH", 20, "binary searches over the sorted strings move the bound that the comparator's orientation dictates: with cmp = stored - query, "
                       "cmp > 0 lowers the upper bound and cmp < 0 raises the lower bound (and the reverse for the opposite orientation)")
def r_bsearch(db, rep):
    P = get_polarity(db)
    for f in sorted(db.funcs.values(), key=lambda x: (x.file, x.line)):
        if not f.body or f.file.startswith("libcds/"):
            continue
        for w in f.live_nodes():
            if w["k"] not in ("WhileStmt", "DoStmt", "ForStmt") or w.get("cond") is None:
                continue
            bv = bound_vars(f, w["cond"])
            if bv is None:
                continue
            lo, hi = bv
            for n in walk(w["body"]):
                if n["k"] != "IfStmt":
                    continue
                st = sign_test(f, n["cond"])
                if st is None:
                    continue
                d, op = st
                pol = {s for _, s in P.var_pol(f, d)}
                if not pol:
                    continue
                tg = [p for p, _ in top_assign_targets(f, n.get("then"))]
                if lo not in tg and hi not in tg:
                    continue
                rep.visit(f)
                rep.inst(f.nloc(n), "%s: search loop over [%s,%s], test cmp %s 0, comparator orientation %s" %
                         (f.qn, fmt_path(f, lo), fmt_path(f, hi), op, "stored-query" if pol == {"-"} else "query-stored" if pol == {"+"} else "mixed"))
                rep.ob()
                if len(pol) > 1:
                    continue        # reported by R-CMPSIGN at the comparator
                # stored-query: cmp>0 => stored > query => the answer lies below: move the upper bound
                want = hi if (pol == {"-"}) == (op == ">") else lo
                other = lo if want == hi else hi
                if other in tg and want not in tg:
                    rep.viol("%s#direction-l%s" % (f.qn, op), f.nloc(n),
                             "%s: the comparison value is %s, yet on `cmp %s 0` the search moves %s instead of %s: it continues in the half that "
                             "cannot contain the string" % (f.qn, "stored - query" if pol == {"-"} else "query - stored", op, fmt_path(f, other), fmt_path(f, want)), f.qn)


def or_atoms(c):
    c = strip(c)
    if c["k"] == "BinaryOperator" and c["op"] == "||":
        return or_atoms(c["lhs"]) + or_atoms(c["rhs"])
    return [c]


@rule("R-SCANSIGN", 10, "in-bucket scans run through ascending strings: a scan that gives up on the sign of the comparison gives up when the "
                        "stored string is already larger than the query (cmp > 0 with cmp = stored - query), never when it is still smaller")
def r_scansign(db, rep):
    P = get_polarity(db)
    for f in sorted(db.funcs.values(), key=lambda x: (x.file, x.line)):
        if not f.body or f.file.startswith("libcds/"):
            continue
        for n in f.live_nodes():
            if n["k"] != "IfStmt" or n.get("cond") is None or n.get("then") is None:
                continue
            loop = None
            for a in f.ancestors(n):
                if a["k"] in ("WhileStmt", "DoStmt", "ForStmt"):
                    loop = a
                    break
            if loop is None or (loop.get("cond") is not None and bound_vars(f, loop["cond"]) is not None and
                                any(p in (bound_vars(f, loop["cond"])) for p, _ in top_assign_targets(f, n["then"]))):
                continue
            th = n["then"]
            first = th["c"][0] if th["k"] == "CompoundStmt" and th.get("c") else th
            if first["k"] not in ("BreakStmt", "ReturnStmt"):
                continue
            for atom in or_atoms(n["cond"]):
                st = sign_test(f, atom)
                if st is None:
                    continue
                d, op = st
                pol = {s for _, s in P.var_pol(f, d)}
                if not pol:
                    continue
                rep.visit(f)
                rep.inst(f.nloc(n), "%s: scan gives up on cmp %s 0, orientation %s" % (f.qn, op, "stored-query" if pol == {"-"} else "query-stored" if pol == {"+"} else "mixed"))
                rep.ob()
                if len(pol) > 1:
                    continue
                want = ">" if pol == {"-"} else "<"
                if op != want:
                    rep.viol("%s#scan-gives-up-l%s" % (f.qn, op), f.nloc(n),
                             "%s leaves the in-bucket scan on `cmp %s 0` although cmp is %s: it stops while the stored strings are still smaller than the "
                             "query and never reaches a member further down the bucket" % (f.qn, op, "stored - query" if pol == {"-"} else "query - stored"), f.qn)


def _decl_init(f, path):
    """Initialiser node of a local variable (its declaration), or None."""
    if path is None or path[0] != "local" or len(path) != 2:
        return None
    for n in f.live_nodes():
        if n["k"] == "DeclStmt":
            for v in n["decls"]:
                if v.get("d") == path[1]:
                    return v.get("init")
    return None


def _mid_var(f, loop, lo, hi):
    """The local assigned (lo + hi) / 2 in the loop body."""
    cands = []
    for n in walk(loop["body"]):
        if is_assignment(n) and n.get("op") == "=":
            cands.append((access_path(f, n["lhs"]), n["rhs"], n))
        elif n["k"] == "DeclStmt":
            for d in n["decls"]:
                if d.get("init") is not None and "d" in d:
                    cands.append((("local", d["d"]), d["init"], n))
    for tgt, rhs, n in cands:
        r = strip(rhs)
        if r["k"] == "BinaryOperator" and r["op"] == "/" and const_value(r["rhs"]) == 2:
            s = strip(r["lhs"])
            if s["k"] == "BinaryOperator" and s["op"] == "+" and {access_path(f, s["lhs"]), access_path(f, s["rhs"])} == {lo, hi}:
                return tgt, n
    return None, None


@rule("R-BISECT", 8, "prefix-range boundary searches cover the whole interval the main binary search left open: with main interval [L,R] and "
                     "pivot c, the left-boundary search runs over [L, c-1] (closed, steps mid+1 / mid-1) and the right-boundary search over "
                     "(c, R+1) (open sentinel R+1, steps mid / mid); a smaller sentinel silently drops the last matching element")
def r_bisect(db, rep):
    from rules_serial import SeqBuilder
    from symx import canon, mk_op, C
    for f in sorted(db.funcs.values(), key=lambda x: (x.file, x.line)):
        if not f.body or f.file.startswith("libcds/"):
            continue
        loops = [n for n in f.live_nodes() if n["k"] == "WhileStmt" and n.get("cond") is not None and bound_vars(f, n["cond"])]
        if len(loops) < 3:
            continue
        loops.sort(key=lambda n: n["id"])
        main = loops[0]
        L, R = bound_vars(f, main["cond"])
        c, _ = _mid_var(f, main, L, R)
        if c is None:
            continue
        sb = SeqBuilder(db, f, "c", nosubst=True)
        mc = strip(main["cond"])
        symL, symR = canon(sb.sym(mc["lhs"])), canon(sb.sym(mc["rhs"]))
        symc = ("local", c[1]) if c[0] == "local" and len(c) == 2 else None
        if symc is None:
            continue
        initL, initR = _decl_init(f, L), _decl_init(f, R)
        okL = {symL} | ({canon(sb.sym(initL))} if initL is not None else set())
        okR1 = {canon(mk_op("+", sb.sym(mc["rhs"]), C(1)))} | ({canon(mk_op("+", sb.sym(initR), C(1)))} if initR is not None else set())
        for lp in loops[1:]:
            a, b = bound_vars(f, lp["cond"])
            ia, ib = _decl_init(f, a), _decl_init(f, b)
            m, _ = _mid_var(f, lp, a, b)
            if ia is None or ib is None or m is None:
                continue
            cond = strip(lp["cond"])
            closed = cond["op"] == "<="
            rep.visit(f)
            sym_m = ("local", m[1])
            sb.env[("local", m[1])] = sym_m          # the midpoint stays an atom even when it is a single-definition local
            ga, gb = canon(sb.sym(ia)), canon(sb.sym(ib))
            okR = {symR} | ({canon(sb.sym(initR))} if initR is not None else set())
            okLm1 = {canon(mk_op("-", sb.sym(mc["lhs"]), C(1)))} | ({canon(mk_op("-", sb.sym(initL), C(1)))} if initL is not None else set())
            cm1, cp1 = canon(mk_op("-", symc, C(1))), canon(mk_op("+", symc, C(1)))
            # which side of the pivot does this loop search?  (decided by the end that touches the pivot)
            if closed:
                steps = {a: canon(mk_op("+", sym_m, C(1))), b: canon(mk_op("-", sym_m, C(1)))}
                if gb == cm1:
                    side, bad = "left", (None if ga in okL else ("lower bound", ga, "L (the main search's lower bound)"))
                elif ga == cp1:
                    side, bad = "right", (None if gb in okR else ("upper bound", gb, "R (the main search's upper bound)"))
                else:
                    side, bad = "?", ("pivot end", "[%s, %s]" % (ga, gb), "pivot - 1 (left search) or pivot + 1 (right search)")
            else:
                steps = {a: canon(sym_m), b: canon(sym_m)}
                if ga == canon(symc):
                    side, bad = "right", (None if gb in okR1 else ("exclusive upper sentinel", gb, "R + 1 (one past the main search's upper bound)"))
                elif gb == canon(symc):
                    side, bad = "left", (None if ga in okLm1 else ("exclusive lower sentinel", ga, "L - 1 (one before the main search's lower bound)"))
                else:
                    side, bad = "?", ("pivot end", "(%s, %s)" % (ga, gb), "the pivot")
            rep.inst(f.nloc(lp), "%s: %s-boundary search over %s%s, %s%s" % (f.qn, side, "[" if closed else "(", ga, gb, "]" if closed else ")"))
            # the guard that decides whether this boundary search runs at all: `pivot > first` / `pivot < last`, where first / last
            # are the limits the main search started from (for bounds passed by pointer: the values the caller initialised them with)
            if side in ("left", "right"):
                def initial_of(bound_path, bound_init):
                    vals = set()
                    if bound_init is not None:
                        vals.add(canon(sb.sym(bound_init)))
                    if bound_path[0] == "param":
                        for g in db.funcs.values():
                            if not g.body:
                                continue
                            for c in g.calls():
                                if c.get("f") == f.id and bound_path[1] < len(c.get("args", [])):
                                    a = strip(c["args"][bound_path[1]])
                                    if a["k"] == "UnaryOperator" and a["op"] == "&":
                                        ap = access_path(g, a["sub"])
                                        if ap and ap[0] == "local":
                                            gi = single_def_init(g, ap[1]) or _decl_init(g, ap)
                                            if gi is not None:
                                                vals.add(canon(SeqBuilder(db, g, "x", nosubst=True).sym(gi)))
                    return vals
                gnode = next((a for a in f.ancestors(lp) if a["k"] == "IfStmt" and a.get("cond") is not None and
                              any(x is lp for x in walk(a["then"])) and access_path(f, strip(a["cond"]).get("lhs", {})) == c and
                              strip(a["cond"])["k"] == "BinaryOperator"), None)
                if gnode is not None:
                    gc = strip(gnode["cond"])
                    rep.ob()
                    want_op = ">" if side == "left" else "<"
                    lim = canon(SeqBuilder(db, f, "x", nosubst=True).sym(gc["rhs"]))
                    allowed = initial_of(L if side == "left" else R, initL if side == "left" else initR)
                    if side == "left":
                        allowed |= {symL}
                    else:
                        allowed |= {symR}
                    if gc["op"] != want_op or (allowed and lim not in allowed):
                        rep.viol("%s#%s-guard" % (f.qn, side), f.nloc(gnode),
                                 "%s runs the %s-boundary search only when pivot %s %s, but the main search started from %s: with the pivot at the "
                                 "last-but-one (first-but-one) position the neighbouring element is never examined and the range is cut short or "
                                 "overshoots" % (f.qn, side, gc["op"], lim, " / ".join(sorted(allowed)) or "?"), f.qn)
            rep.ob()
            rep.ob()
            if side == "?":
                rep.notes.append("%s: boundary loop at %s touches the pivot at neither end (%s): coverage undecided" % (f.qn, f.nloc(lp), bad[1]))
            elif bad is not None:
                what, got, descr = bad
                rep.viol("%s#%s-%s" % (f.qn, side, what.split()[-2] if what.startswith("excl") else what.split()[0]), f.nloc(lp),
                         "%s: the %s of the %s-boundary search starts at %s, not at %s: elements between the two are never examined, so the reported "
                         "range loses members at that end" % (f.qn, what, side, got, descr), f.qn)
            closed_s = closed
            for n in walk(lp["body"]):
                if is_assignment(n) and n.get("op") == "=":
                    p = access_path(f, n["lhs"])
                    if p in steps:
                        rep.ob()
                        got = canon(sb.sym(n["rhs"]))
                        if got != steps[p]:
                            rep.viol("%s#%s-step-%s" % (f.qn, side, fmt_path(f, p)), f.nloc(n),
                                     "%s: the %s-boundary search moves %s to %s instead of %s: on a %s interval that either skips an element or never "
                                     "terminates" % (f.qn, side, fmt_path(f, p), got, steps[p], "closed" if closed else "half-open"), f.qn)


def _may_be_zero(f, expr):
    """The returned expression can evaluate to 0 as far as constants tell: literal 0, or a local one of whose definitions is 0."""
    s = strip(expr)
    if const_value(s) == 0:
        return True
    if s["k"] == "DeclRefExpr" and s.get("dk") == "local":
        for n in f.live_nodes():
            if n["k"] == "DeclStmt":
                for v in n["decls"]:
                    if v.get("d") == s["d"] and v.get("init") is not None and const_value(v["init"]) == 0:
                        return True
            elif is_assignment(n) and n.get("op") == "=" and access_path(f, n["lhs"]) == ("local", s["d"]) and const_value(n["rhs"]) == 0:
                return True
    if s["k"] == "ConditionalOperator":
        return _may_be_zero(f, s["then"]) or _may_be_zero(f, s["else"])
    return False


def _nonzero_difference_before(db, f, brk, rv):
    """The statement list that ends in `brk` assigns rv = X - Y, and `X != Y` is known on the way to it."""
    from rules_serial import SeqBuilder
    from symx import canon
    par = f.parent(brk)
    if par is None or par["k"] != "CompoundStmt":
        return False
    sb = SeqBuilder(db, f, "x", nosubst=True)
    for st in par.get("c", []):
        x = strip(st)
        if is_assignment(x) and x.get("op") == "=" and access_path(f, x["lhs"]) == rv:
            r = strip(x["rhs"])
            if r["k"] == "BinaryOperator" and r["op"] == "-":
                a, b = canon(sb.sym(r["lhs"])), canon(sb.sym(r["rhs"]))
                for c, pol in f.cfg.guards(brk):
                    sc = strip(c) if c is not None else None
                    if sc is not None and sc["k"] == "BinaryOperator" and sc["op"] in ("!=", "==") and (sc["op"] == "!=") == pol:
                        if {canon(sb.sym(sc["lhs"])), canon(sb.sym(sc["rhs"]))} == {a, b}:
                            return True
    return False


@rule("R-CMPEND", 3, "a full-string / prefix comparator that takes the pattern length declares a match (returns a value that may be 0) only "
                     "where it has observed the end of the pattern: the return is edge-dominated by `pos == len` / `pos >= len` / "
                     "`!(pos < len)` / `pattern[pos] == 0`; leaving the symbol loop because the *stored* string ran out is not a match")
def r_cmpend(db, rep):
    P = get_polarity(db)
    for f in sorted(P.cands, key=lambda x: (x.file, x.line)):
        if not P.summary[f.id] or f.cfg is None:
            continue
        qidx = {i for i, _ in P.summary[f.id]}
        # the length parameter: an integer parameter compared with a local somewhere in the function
        lens = set()
        for n in f.live_nodes():
            if n["k"] == "BinaryOperator" and n["op"] in ("==", "!=", "<", "<=", ">", ">="):
                for a, b in ((n["lhs"], n["rhs"]), (n["rhs"], n["lhs"])):
                    pa, pb = access_path(f, a), access_path(f, b)
                    if pa and pa[0] == "param" and len(pa) == 2 and pa[1] not in qidx and f.types[f.params[pa[1]]["t"]]["kind"] in ("int", "uint") \
                            and pb and pb[0] == "local":
                        lens.add(pa)
        if not lens:
            continue
        rep.visit(f)
        rets = [n for n in f.live_nodes() if n["k"] == "ReturnStmt" and n.get("value") is not None and _may_be_zero(f, n["value"])]
        def end_seen(atoms, retvar):
            ok = False
            for c, pol in atoms:
                if c is None:
                    continue
                sc = strip(c)
                # the returned variable is known to be non-zero here: not a match
                if retvar is not None and sc["k"] == "BinaryOperator" and sc["op"] in ("!=", "==") and \
                        ((access_path(f, sc["lhs"]) == retvar and const_value(sc["rhs"]) == 0) or (access_path(f, sc["rhs"]) == retvar and const_value(sc["lhs"]) == 0)) \
                        and (sc["op"] == "!=") == pol:
                    return True
                if retvar is not None and access_path(f, sc) == retvar and pol:
                    return True
                if sc["k"] == "BinaryOperator" and sc["op"] in ("==", "!=", "<", "<=", ">", ">="):
                    for a, b, flip in ((sc["lhs"], sc["rhs"], False), (sc["rhs"], sc["lhs"], True)):
                        pa, pb = access_path(f, a), access_path(f, b)
                        if pb in lens and pa and pa[0] == "local":
                            op = sc["op"]
                            if flip:
                                op = {"<": ">", "<=": ">=", ">": "<", ">=": "<=", "==": "==", "!=": "!="}[op]
                            if (op in ("==", ">=", ">") and pol) or (op in ("<", "<=", "!=") and not pol):
                                ok = True
                    for a, b in ((sc["lhs"], sc["rhs"]), (sc["rhs"], sc["lhs"])):
                        if sc["op"] in ("==", "!=") and const_value(b) == 0 and byte_load_param(f, a) in qidx and (sc["op"] == "==") == pol:
                            ok = True
                elif byte_load_param(f, sc) in qidx and not pol:
                    ok = True
            return ok

        for r in rets:
            rep.inst(f.nloc(r), "%s: return that may report a match" % f.qn)
            rep.ob()
            rv = access_path(f, r["value"])
            rv = rv if rv and rv[0] == "local" and len(rv) == 2 else None
            ok = end_seen(f.cfg.guards(r), rv)
            tv = strip(r["value"])
            if not ok and tv["k"] == "ConditionalOperator":
                # return c ? a : b  -- each arm that may be 0 is judged under the outcome of c that selects it
                ok = True
                for arm, pol in ((tv["then"], True), (tv["else"], False)):
                    if _may_be_zero(f, arm):
                        av = access_path(f, arm)
                        av = av if av and av[0] == "local" and len(av) == 2 else None
                        if not end_seen(list(f.cfg.guards(r)) + implied_atoms(tv["cond"], pol), av):
                            ok = False
                if ok:
                    continue
            if not ok:
                # a return that directly follows a loop: it is reached through the loop condition or through a break; each way in
                # must carry the evidence
                par = f.parent(r)
                sib = par.get("c", []) if par is not None and par["k"] == "CompoundStmt" else []
                idx = next((i for i, x in enumerate(sib) if x is r), -1)
                prev = sib[idx - 1] if idx > 0 else None
                if idx > 1 and prev is not None and prev["k"] not in ("WhileStmt", "ForStmt", "DoStmt"):
                    # statements that cannot branch (e.g. restoring the sentinel byte) may sit between the loop and the return
                    k = idx - 1
                    while k >= 0 and sib[k]["k"] not in ("WhileStmt", "ForStmt", "DoStmt", "IfStmt", "SwitchStmt", "ReturnStmt"):
                        k -= 1
                    prev = sib[k] if k >= 0 and sib[k]["k"] in ("WhileStmt", "ForStmt", "DoStmt") else None
                if prev is not None and prev["k"] in ("WhileStmt", "ForStmt", "DoStmt"):
                    ways = []
                    if prev.get("cond") is not None:
                        ways.append(implied_atoms(prev["cond"], False))
                    for b in walk(prev["body"]):
                        if b["k"] == "BreakStmt" and not any(a is not prev and a["k"] in ("WhileStmt", "ForStmt", "DoStmt", "SwitchStmt")
                                                             and any(x is a for x in walk(prev["body"])) for a in f.ancestors(b)):
                            if rv is not None and _nonzero_difference_before(db, f, b, rv):
                                continue        # cmp = a - b under `a != b`: non-zero, not a match
                            ways.append(f.cfg.guards(b))
                    ok = bool(ways) and all(end_seen(w, rv) for w in ways)
            if not ok:
                rep.viol("%s#match-without-end-of-pattern" % f.qn, f.nloc(r),
                         "%s can return 0 (match) at line %s without having observed the end of the pattern: a stored string that ends "
                         "before the pattern does (a proper prefix of it) is reported as equal / as matching the prefix" % (f.qn, r.get("l")), f.qn)
        continue
        for r in []:
            ok = False
            for c, pol in f.cfg.guards(r):
                if c is None:
                    continue
                sc = strip(c)
                if sc["k"] == "BinaryOperator" and sc["op"] in ("==", "!=", "<", "<=", ">", ">="):
                    for a, b, flip in ((sc["lhs"], sc["rhs"], False), (sc["rhs"], sc["lhs"], True)):
                        pa, pb = access_path(f, a), access_path(f, b)
                        if pb in lens and pa and pa[0] == "local":
                            op = sc["op"]
                            if flip:
                                op = {"<": ">", "<=": ">=", ">": "<", ">=": "<=", "==": "==", "!=": "!="}[op]
                            # position OP length: which outcome means "pattern consumed"?
                            if (op in ("==", ">=", ">") and pol) or (op in ("<", "<=", "!=") and not pol):
                                ok = True
                    # pattern[pos] == 0
                    for a, b in ((sc["lhs"], sc["rhs"]), (sc["rhs"], sc["lhs"])):
                        if sc["op"] in ("==", "!=") and const_value(b) == 0 and byte_load_param(f, a) in qidx and (sc["op"] == "==") == pol:
                            ok = True
                elif byte_load_param(f, sc) in qidx and not pol:
                    ok = True
            if not ok:
                rep.viol("%s#match-without-end-of-pattern" % f.qn, f.nloc(r),
                         "%s can return 0 (match) at line %s without having observed the end of the pattern: a stored string that ends "
                         "before the pattern does (a proper prefix of it) is reported as equal / as matching the prefix" % (f.qn, r.get("l")), f.qn)
