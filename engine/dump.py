#!/usr/bin/env python3
"""Debug aid: dump the simplified AST / CFG of a function.  usage: dump.py <qualified name> [--cfg]"""
import sys, os
sys.path.insert(0, os.path.dirname(os.path.abspath(__file__)))
import core


def show(f, n, ind=0):
    extra = []
    for k in ("op", "n", "fn", "dk", "mk", "v", "cv", "ck", "d", "pi", "macro", "array", "lambda"):
        if k in n:
            extra.append("%s=%s" % (k, n[k]))
    t = f.tstr(n) if "t" in n else ""
    print("%s%s#%s l%s %s  <%s>" % ("  " * ind, n["k"], n.get("id"), n.get("l"), " ".join(extra), t))
    for c in core.children(n):
        show(f, c, ind + 1)


if __name__ == "__main__":
    db = core.DB()
    for f in db.fns(sys.argv[1]):
        print("==", f.id, f.loc, [p["n"] for p in f.params])
        for r in f.roots():
            show(f, r)
        if "--cfg" in sys.argv and f.cfg:
            for bid, b in sorted(f.cfg.blocks.items(), reverse=True):
                print("B%d" % bid, "elems", b["e"], "succ", b["s"], "cond", b.get("cond"), "term", b.get("termk"))
