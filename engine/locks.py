"""Lock-held sets (RAII guards) on clang CFGs, with canonical lock identities across objects."""
import collections
from core import *

GUARD_RECS = ("std::lock_guard", "std::unique_lock", "std::scoped_lock")


def is_guard_type(t):
    return bool(t) and t.get("rec", "") in GUARD_RECS


class Aliases:
    """Reference / pointer members bound at construction to a member of the constructing object:
    (Record, field) -> (OwnerRecord, field).  E.g. Worker::shared_mutex -> WorkerPool::shared_mutex."""

    def __init__(self, db):
        self.db = db
        self.map = {}
        for rec, r in db.records.items():
            reffields = [f["n"] for f in r["fields"] if r["_types"][f["t"]]["kind"] == "ref"]
            if not reffields:
                continue
            for c in db.methods_of(rec):
                if not c.is_ctor:
                    continue
                # field <- ctor param index
                f2p = {}
                for ini in c.raw.get("inits", []):
                    if ini.get("field") in reffields and isinstance(ini.get("init"), dict):
                        p = access_path(c, ini["init"])
                        if p and p[0] == "param" and len(p) == 2:
                            f2p[ini["field"]] = p[1]
                if not f2p:
                    continue
                # construction sites: new Rec(args) / make_unique<Rec>(args)
                for g in db.funcs.values():
                    for n in g.calls():
                        args = None
                        if n["k"] in ("CXXConstructExpr", "CXXTemporaryObjectExpr") and n.get("f") == c.id:
                            args = n.get("args", [])
                        elif callee_name(n) in ("make_unique", "make_shared") and n.get("targs") and \
                                g.types[n["targs"][0].get("t", 0)].get("rec") == rec:
                            args = n.get("args", [])
                        if args is None:
                            continue
                        for fld, pi in f2p.items():
                            if pi < len(args):
                                ap = access_path(g, args[pi])
                                if ap and ap[0] == "this" and len(ap) == 2 and g.rec:
                                    self.map[(rec, fld)] = (g.rec, ap[1])

    def canon_field(self, rec, fld):
        seen = set()
        while (rec, fld) in self.map and (rec, fld) not in seen:
            seen.add((rec, fld))
            rec, fld = self.map[(rec, fld)]
        # declaring record (field may be inherited)
        d = self.db.field(rec, fld)
        if d:
            rec = d[0]
        return (rec, fld)


def canon_loc(db, aliases, f, path, _depth=0):
    """Canonical name of a memory location / lock: ('F', Record, field) for object members (object identity
    abstracted to its class: sound for 'same lock protects' reasoning when each pool has one queue/mutex),
    ('L', outer function id, local id) for locals (lambdas share the numbering of their parent)."""
    if path is None:
        return None
    if path[0] == "this" and len(path) >= 2:
        rec = f.rec
        if f.is_lambda:
            rec = db.funcs[outer_id(db, f)].rec
        if rec is None:
            return None
        r, fl = aliases.canon_field(rec, path[1])
        return ("F", r, fl)
    if path[0] == "local" and len(path) >= 2:
        return ("L", outer_id(db, f), path[1])
    if path[0] == "global":
        return ("G", path[1])
    if path[0] == "param" and len(path) == 2 and _depth < 3:
        # an object handed in by reference / pointer: the location every caller passes (when they all agree)
        pi = path[1]
        if pi < len(f.params):
            t = f.types[f.params[pi]["t"]]
            if t.get("kind") in ("ref", "ptr"):
                locs = set()
                for g in db.funcs.values():
                    if not g.body:
                        continue
                    for c in g.calls():
                        if c.get("f") == f.id and pi < len(c.get("args", [])):
                            a = strip(c["args"][pi])
                            if a["k"] == "UnaryOperator" and a["op"] == "&":
                                a = a["sub"]
                            locs.add(canon_loc(db, aliases, g, access_path(g, a), _depth + 1))
                if len(locs) == 1 and None not in locs:
                    return next(iter(locs))
        return None
    if path[0] == "param" and len(path) >= 3:
        # field of an object passed by pointer/reference: name by the static record of the parameter
        t = f.types[f.params[path[1]]["t"]]
        pt = f.pointee(t) or t
        if pt.get("rec"):
            r, fl = aliases.canon_field(pt["rec"], path[2])
            return ("F", r, fl)
    return None


def outer_id(db, f):
    while f.parent_id:
        f = db.funcs[f.parent_id]
    return f.id


class LockSets:
    """Must-held guard set at every CFG position of one function."""

    def __init__(self, db, aliases, f):
        self.db, self.f, self.aliases = db, f, aliases
        self.cfg = f.cfg
        self.guards = {}       # local d -> canonical lock
        self.events = collections.defaultdict(list)   # (bid, idx) -> [('acq'|'rel', d)]
        self._find_events()
        self._solve()

    def _find_events(self):
        f, cfg = self.f, self.cfg
        # guard declarations
        for n in f.nodes():
            if n["k"] == "DeclStmt":
                for d in n["decls"]:
                    if d.get("k") == "VarDecl" and "d" in d and is_guard_type(f.types[d["t"]]):
                        ini = d.get("init")
                        ce = strip(ini) if ini else None
                        lock = None
                        if ce is not None and ce["k"] in ("CXXConstructExpr", "CXXTemporaryObjectExpr") and ce.get("args"):
                            lock = canon_loc(self.db, self.aliases, f, access_path(f, ce["args"][0]))
                        self.guards[d["d"]] = lock
                        # unique_lock(m, std::try_to_lock / std::defer_lock): the constructor does not (reliably) acquire
                        tags = [t for a in (ce.get("args", [])[1:] if ce is not None else []) for t in walk(a)
                                if t["k"] == "DeclRefExpr" and str(t.get("n", "")).split("::")[-1] in ("try_to_lock", "defer_lock")]
                        pos = cfg.pos.get(n["id"]) or cfg.position(n)
                        if pos and not tags:
                            self.events[pos].append(("acq", d["d"]))
            elif n["k"] == "CXXMemberCallExpr" and n.get("obj") is not None:
                p = access_path(f, n["obj"])
                if p and p[0] == "local" and len(p) == 2 and is_guard_type(f.type(n["obj"])):
                    nm = callee_name(n)
                    pos = cfg.pos.get(n["id"])
                    if pos and nm == "unlock":
                        self.events[pos].append(("rel", p[1]))
                    elif pos and nm == "lock":
                        self.events[pos].append(("acq", p[1]))
        for bid, b in cfg.blocks.items():
            for i, e in enumerate(b["e"]):
                if isinstance(e, dict) and "dtor" in e and e["dtor"] in self.guards:
                    self.events[(bid, i)].append(("rel", e["dtor"]))

    def _transfer(self, bid, inset, upto=None):
        cur = set(inset)
        b = self.cfg.blocks[bid]
        n = len(b["e"]) if upto is None else upto
        for i in range(n):
            for kind, d in self.events.get((bid, i), ()):
                if kind == "acq":
                    cur.add(d)
                else:
                    cur.discard(d)
        return cur

    def _solve(self):
        cfg = self.cfg
        allg = set(self.guards)
        IN = {b: set(allg) for b in cfg.blocks}
        IN[cfg.entry] = set()
        changed = True
        reach = cfg.reachable_blocks()
        while changed:
            changed = False
            for b in sorted(cfg.blocks, reverse=True):
                if b not in reach:
                    continue
                preds = [p for p in cfg.pred[b] if p in reach]
                if b == cfg.entry:
                    new = set()
                elif preds:
                    new = set(allg)
                    for p in preds:
                        new &= self._transfer(p, IN[p])
                else:
                    new = set()
                if new != IN[b]:
                    IN[b] = new
                    changed = True
        self.IN = IN

    def held_at(self, node):
        """Canonical locks definitely held when node executes."""
        pos = self.cfg.position(node)
        if pos is None:
            return set()
        gs = self._transfer(pos[0], self.IN[pos[0]], upto=pos[1])
        return {self.guards[g] for g in gs if self.guards.get(g) is not None}

    def guard_vars_held_at(self, node):
        pos = self.cfg.position(node)
        if pos is None:
            return set()
        return self._transfer(pos[0], self.IN[pos[0]], upto=pos[1])


class LockContext:
    """Interprocedural must-held locks: locks held inside the function at the site, plus the intersection
    over all call sites of the function (recursively)."""

    def __init__(self, db):
        self.db = db
        self.aliases = Aliases(db)
        self._ls = {}
        self.callers = collections.defaultdict(list)   # callee id -> [(caller func, call node)]
        for f in db.funcs.values():
            for n, t in db.callees(f, with_dtors=False):
                if n is not None and t in db.funcs:
                    self.callers[t].append((f, n))
        self._entry_memo = {}
        self.wait_pred_locks = {}    # lambda id -> lock held while a cv.wait predicate runs
        for f in db.funcs.values():
            for n in f.calls():
                if callee_name(n) in ("wait", "wait_for", "wait_until") and n.get("frec", "").startswith("std::condition_variable") \
                        and len(n.get("args", [])) >= 2:
                    lam = lambda_node_of(db, f, n["args"][-1])
                    if lam is not None:
                        g = access_path(f, n["args"][0])
                        if g and g[0] == "local":
                            lk = self.ls(f).guards.get(g[1])
                            if lk is not None:
                                self.wait_pred_locks[lam["lambda"]] = lk

    def ls(self, f):
        if f.id not in self._ls:
            self._ls[f.id] = LockSets(self.db, self.aliases, f)
        return self._ls[f.id]

    def entry_locks(self, f, stack=()):
        """Locks held on entry to f on every call path (empty for functions without callers: API entry points)."""
        if f.id in self._entry_memo:
            return self._entry_memo[f.id]
        if f.id in stack:
            return None     # recursion: no information (treated as top)
        if f.is_lambda:
            lk = self.wait_pred_locks.get(f.id)
            res = {lk} if lk is not None else set()
            self._entry_memo[f.id] = res
            return res
        cs = self.callers.get(f.id, [])
        if not cs:
            self._entry_memo[f.id] = set()
            return set()
        res = None
        for g, n in cs:
            if not g.cfg:
                continue
            inner = self.ls(g).held_at(n)
            outer = self.entry_locks(g, stack + (f.id,))
            here = set(inner) | (outer if outer is not None else set())
            if outer is None and not inner:
                continue
            res = here if res is None else (res & here)
        if res is None:
            res = set()
        self._entry_memo[f.id] = res
        return res

    def held(self, f, node):
        return self.ls(f).held_at(node) | self.entry_locks(f)

    def canon(self, f, path):
        return canon_loc(self.db, self.aliases, f, path)
