"""Fact database: runs bin/csdfacts over /repo's current working tree and loads the result.

Every check calls `load_db()`. The facts are always a function of the *current*
source: a content hash over every source/header/CMake file below /repo is
computed on each call and facts are re-extracted whenever it differs from the
cached extraction (cache: /verif/.cache, disposable).
"""
import hashlib
import json
import os
import pickle
import shutil
import subprocess
import sys
import tempfile
import time

VERIF = os.path.dirname(os.path.dirname(os.path.abspath(__file__)))
REPO = os.environ.get("LIBCSD_REPO", "/repo")
BIN = os.path.join(VERIF, "bin", "csdfacts")
CACHE = os.path.join(VERIF, ".cache")
SRC_EXT = (".cpp", ".h", ".hpp", ".cc", ".c", ".txt", ".cmake", ".tcc", ".inl")


class AnalysisBroken(Exception):
    """The analysis itself could not be carried out (exit status 2)."""


def tree_hash(repo):
    h = hashlib.sha256()
    files = []
    for root, dirs, fs in os.walk(repo):
        dirs[:] = sorted(d for d in dirs if d not in (".git", "_build", "build") and not d.startswith("cmake-build"))
        for f in sorted(fs):
            if f.endswith(SRC_EXT):
                files.append(os.path.join(root, f))
    for p in files:
        h.update(p.encode())
        h.update(b"\0")
        with open(p, "rb") as fh:
            h.update(fh.read())
        h.update(b"\0")
    with open(BIN, "rb") as fh:
        h.update(hashlib.sha256(fh.read()).digest())
    with open(os.path.abspath(__file__), "rb") as fh:
        h.update(hashlib.sha256(fh.read()).digest())
    return h.hexdigest()[:24], len(files)


def gen_compdb(repo, scratch):
    r = subprocess.run(["cmake", "-G", "Ninja", "-S", repo, "-B", scratch], stdout=subprocess.PIPE, stderr=subprocess.STDOUT)
    if r.returncode != 0:
        raise AnalysisBroken("cmake failed:\n" + r.stdout.decode(errors="replace")[-2000:])
    r = subprocess.run(["ninja", "-C", scratch, "-t", "compdb"], stdout=subprocess.PIPE, stderr=subprocess.PIPE)
    if r.returncode != 0:
        raise AnalysisBroken("ninja -t compdb failed: " + r.stderr.decode(errors="replace"))
    db = json.loads(r.stdout.decode())
    out, seen = [], set()
    for e in db:
        f = e.get("file", "")
        if not f.startswith(repo + "/") or not f.endswith((".cpp", ".cc", ".c")):
            continue
        rel = f[len(repo) + 1:]
        if rel.startswith("test/"):
            continue  # gtest drivers are not library code
        if f in seen:
            continue
        seen.add(f)
        args = e["command"].split()
        keep = ["clang++"]
        skip = 0
        for a in args[1:]:
            if skip:
                skip -= 1
                continue
            if a in ("-MD", "-c", "-Werror", "-pedantic"):
                continue
            if a in ("-MT", "-MF", "-o"):
                skip = 1
                continue
            if a.startswith("-W") or a.startswith("-O") or a == "-g":
                continue
            if a == f:
                continue
            keep.append(a)
        if not any(a.startswith("-std=") for a in keep):
            keep.append("-std=gnu++17")
        keep += ["-UNDEBUG", "-w", "-fsyntax-only", "-c", f]
        out.append({"directory": scratch, "arguments": keep, "file": f})
    if len(out) < 100:
        raise AnalysisBroken("compile database has only %d library units (expected >=100)" % len(out))
    with open(os.path.join(scratch, "compile_commands.json"), "w") as fh:
        json.dump(out, fh)
    return [e["file"] for e in out]


def extract(repo, outdir, jobs=16):
    scratch = tempfile.mkdtemp(prefix="csdfacts_cdb_")
    try:
        units = gen_compdb(repo, scratch)
        # main-library units first so that header functions come from them
        units.sort(key=lambda f: ("/libcds/" in f, f))
        chunks = [[] for _ in range(jobs)]
        for i, u in enumerate(units):
            chunks[i % jobs].append(u)
        procs = []
        for i, ch in enumerate(chunks):
            if not ch:
                continue
            cmd = [BIN, "-p", scratch, "--out", outdir, "--root", repo, "--tag", "p%02d" % i] + ch
            procs.append((ch, subprocess.Popen(cmd, stdout=subprocess.PIPE, stderr=subprocess.PIPE)))
        errs = []
        for ch, p in procs:
            o, e = p.communicate()
            if p.returncode != 0:
                errs.append("csdfacts failed on %s:\n%s" % (" ".join(ch), e.decode(errors="replace")[-3000:]))
        if errs:
            raise AnalysisBroken("\n".join(errs))
        return units
    finally:
        shutil.rmtree(scratch, ignore_errors=True)


def load_raw(repo=REPO, verbose=False):
    """Returns (merged raw facts dict, meta)."""
    if not os.path.exists(BIN):
        raise AnalysisBroken("bin/csdfacts missing: run MANIFEST.setup_cmd")
    t0 = time.time()
    key, nfiles = tree_hash(repo)
    cdir = os.path.join(CACHE, key)
    pk = os.path.join(cdir, "merged.pickle")
    if os.path.exists(pk):
        try:
            with open(pk, "rb") as fh:
                raw = pickle.load(fh)
            raw["meta"]["cache"] = "hit"
            raw["meta"]["load_s"] = round(time.time() - t0, 2)
            return raw
        except Exception:
            pass
    tmp = tempfile.mkdtemp(prefix="facts_", dir=CACHE if os.path.isdir(CACHE) or not os.makedirs(CACHE, exist_ok=True) else CACHE)
    try:
        units = extract(repo, tmp)
        raw = merge(tmp, units, repo)
        raw["meta"]["tree_key"] = key
        raw["meta"]["source_files_hashed"] = nfiles
        raw["meta"]["extract_s"] = round(time.time() - t0, 2)
        raw["meta"]["cache"] = "miss"
        # the cache is an optimisation shared by concurrent runs: a failure to store (another process pruned the directory
        # in between) must not fail the analysis
        try:
            os.makedirs(cdir, exist_ok=True)
            with open(pk + ".tmp%d" % os.getpid(), "wb") as fh:
                pickle.dump(raw, fh, protocol=pickle.HIGHEST_PROTOCOL)
            os.replace(pk + ".tmp%d" % os.getpid(), pk)
        except OSError:
            pass
        prune_cache(keep=key)
    finally:
        shutil.rmtree(tmp, ignore_errors=True)
    return raw


def prune_cache(keep, maxn=6):
    """Keep the newest `maxn` extracted trees. Work directories of extractions in progress (facts_*) belong to other
    processes that may run concurrently: they are removed only when clearly abandoned (older than two hours)."""
    try:
        now = time.time()
        ents = []
        for d in os.listdir(CACHE):
            if d == keep:
                continue
            p = os.path.join(CACHE, d)
            if d.startswith("facts_"):
                if now - os.path.getmtime(p) > 7200:
                    shutil.rmtree(p, ignore_errors=True)
                continue
            ents.append((os.path.getmtime(p), d))
        ents.sort(reverse=True)
        for mt, d in ents[maxn:]:
            if now - mt < 900:
                continue            # just written, possibly by a concurrent run that is about to read it
            shutil.rmtree(os.path.join(CACHE, d), ignore_errors=True)
    except OSError:
        pass


def merge(outdir, units, repo):
    functions, records, globals_, parse_errors = {}, {}, {}, []
    nunits = 0
    for fn in sorted(os.listdir(outdir)):
        if not fn.endswith(".json"):
            continue
        with open(os.path.join(outdir, fn)) as fh:
            u = json.load(fh)
        nunits += 1
        if u.get("errors"):
            parse_errors.append(u["unit"])
        types = u["types"]
        # resolve type indices into per-unit type table objects lazily: attach table
        for f in u["functions"]:
            if f["id"] in functions:
                continue
            f["_types"] = types
            f["_unit"] = u["unit"]
            functions[f["id"]] = f
        for r in u["records"]:
            if r["qn"] in records:
                continue
            r["_types"] = types
            records[r["qn"]] = r
        for g in u["globals"]:
            k = g["u"]
            g["_types"] = types
            if k not in globals_ or (g.get("def") and not globals_[k].get("def")):
                globals_[k] = g
    if parse_errors:
        raise AnalysisBroken("units with parse errors: " + ", ".join(parse_errors))
    if nunits != len(units):
        raise AnalysisBroken("expected %d unit fact files, found %d" % (len(units), nunits))
    return {
        "functions": functions,
        "records": records,
        "globals": globals_,
        "meta": {"units": [x[len(repo) + 1:] for x in units], "n_units": len(units)},
    }


if __name__ == "__main__":
    raw = load_raw(verbose=True)
    print(json.dumps(raw["meta"], indent=1)[:600])
    print(len(raw["functions"]), "functions", len(raw["records"]), "records", len(raw["globals"]), "globals")
