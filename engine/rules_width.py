"""R-VARFIELD: width of the empty-field encoding handed to the libcds variable-field primitives."""
from core import *
from rulebase import rule


def _addends(n):
    n = strip(n)
    if n["k"] == "BinaryOperator" and n["op"] == "+":
        return _addends(n["lhs"]) + _addends(n["rhs"])
    return [n]


@rule("R-VARFIELD", 4, "libcds get_var_field / set_var_field take a possibly empty bit field as [ini, fin] with fin = ini + len - 1 and "
                       "recognise the empty one by `ini == fin + 1`, evaluated in size_t: a caller that forms `ini + len - 1` in 32-bit "
                       "unsigned arithmetic gets 0xFFFFFFFF, not `one before ini`, when ini == 0 and len == 0, and the primitive then "
                       "touches word 0 of the array (which may have no words)")
def r_varfield(db, rep):
    for f in sorted(db.funcs.values(), key=lambda x: (x.file, x.line)):
        if not f.body:
            continue
        for n in f.calls():
            nm = callee_name(n)
            if nm not in ("get_var_field", "set_var_field") or not (n.get("fn") or "").startswith("cds_utils::") or len(n.get("args", [])) < 3:
                continue
            ini, fin = n["args"][1], n["args"][2]
            rep.visit(f)
            e = strip(fin)
            while e["k"] in EXPLICIT_CASTS | TRANSPARENT and e.get("sub") is not None and not (e["k"] in EXPLICIT_CASTS and (f.type(e) or {}).get("bits") == 64):
                e = strip(e["sub"])
            t = f.type(e) or {}
            rep.inst(f.nloc(n), "%s: %s(.., ini, fin) with fin computed in %s bits" % (f.qn, nm, t.get("bits")))
            rep.ob()
            if e["k"] != "BinaryOperator" or e["op"] != "-" or const_value(e["rhs"]) is None or const_value(e["rhs"]) < 1:
                continue
            if t.get("kind") != "uint" or (t.get("bits") or 64) >= 64:
                continue
            pi = access_path(f, ini)
            terms = _addends(e["lhs"])
            if pi is None or not any(access_path(f, x) == pi for x in terms) or len(terms) < 2:
                continue
            # the length term: anything but a constant >= 1 can be 0 (get_log2binomial is 0 for the uniform classes)
            others = [x for x in terms if access_path(f, x) != pi]
            if all(const_value(x) is not None and const_value(x) >= 1 for x in others):
                continue
            rep.viol("%s#%s-fin-32bit" % (f.qn, nm), f.nloc(n),
                     "%s hands %s the end position `%s + len - 1` computed in %d-bit unsigned arithmetic: for an empty field at position 0 "
                     "it is 0x%X instead of `one before the start`, the primitive's `ini == fin + 1` test (in size_t) does not fire and "
                     "word 0 of the array is accessed - out of bounds when the array has no words (every block uniform)" % (
                         f.qn, nm, fmt_path(f, pi), t["bits"], (1 << t["bits"]) - 1), f.qn)


@rule("R-COPYBOUND", 1, "a block copy (memcpy / strncpy / memmove / std::copy_n) into a buffer that the same function allocates with "
                         "new T[E] copies at most E elements: the count is compared with the extent symbolically; a count and an extent "
                         "over unrelated quantities (a caller-supplied length against a dictionary constant) need a dominating test that "
                         "relates them")
def r_copybound(db, rep):
    import itertools
    import symx
    from rules_serial import SeqBuilder
    from rules_iter import pinned_sym
    # lengths supplied by the caller of a query: parameter `strLen` of locate/extractPrefix/.., and the parameters of functions and
    # constructors that receive it unchanged (two levels)
    from rules_dispatch import kinds, QUERY_OPS
    qlen = {}
    for k in kinds(db):
        for op in QUERY_OPS:
            for m in db.methods_of(k, op):
                for i, p0 in enumerate(m.params):
                    if p0.get("n") in ("strLen", "len", "length") and (m.types[p0["t"]] or {}).get("kind") in ("uint", "int") and i > 0:
                        qlen.setdefault(m.id, set()).add(i)
    for _round in range(2):
        for fid, idxs in list(qlen.items()):
            g = db.funcs[fid]
            if not g.body:
                continue
            for n in g.nodes():
                if n["k"] in ("CallExpr", "CXXMemberCallExpr", "CXXConstructExpr") and n.get("f") in db.funcs:
                    for j, a in enumerate(n.get("args", [])):
                        sa = strip(a)
                        if sa["k"] == "DeclRefExpr" and sa.get("dk") == "param" and sa.get("pi") in idxs:
                            qlen.setdefault(n["f"], set()).add(j)
    for f in sorted(db.funcs.values(), key=lambda x: (x.file, x.line)):
        if not f.body or f.cfg is None or f.file.startswith("libcds/") or f.id not in qlen:
            continue
        copies = [n for n in f.calls() if callee_name(n) in ("memcpy", "strncpy", "memmove") and len(n.get("args", [])) == 3]
        if not copies:
            continue
        # members that merely hold such a parameter (this->strLen = prefixLen)
        holds = {}
        for lv, w in written_lvalues(f):
            pl = access_path(f, lv)
            if pl and pl[0] == "this" and len(pl) == 2 and w.get("op") == "=" and w.get("rhs") is not None:
                sr = strip(w["rhs"])
                if sr["k"] == "DeclRefExpr" and sr.get("dk") == "param" and sr.get("pi") in qlen[f.id]:
                    holds[("field", ("this", pl[1]))] = sr["pi"]
        sb = SeqBuilder(db, f, "c", nosubst=True)
        try:
            sb.run()
        except Exception:
            continue
        allocs = {}
        for p, newn, ext in sb.allocs:
            if newn.get("size") is not None:
                allocs.setdefault(p, []).append(newn)
        for n0 in f.live_nodes():
            if n0["k"] == "DeclStmt":
                for d in n0["decls"]:
                    if d.get("init") is not None and "d" in d:
                        r = strip(d["init"])
                        if r["k"] == "CXXNewExpr" and r.get("array") and r.get("size") is not None:
                            allocs.setdefault(("local", d["d"]), []).append(r)
        for c in copies:
            dst = strip(c["args"][0])
            while dst["k"] in EXPLICIT_CASTS:
                dst = strip(dst["sub"])
            dp = access_path(f, dst)
            if dp is None or dp not in allocs or len(allocs[dp]) != 1:
                continue
            newn = allocs[dp][0]
            if not f.cfg.position(newn) or not f.cfg.position(c) or not f.cfg.dominates(f.cfg.position(newn), f.cfg.position(c)):
                continue
            at = f.types[newn["alloct"]] if "alloct" in newn else {"bits": 8}
            esz = max((at.get("bits") or 8) // 8, 1)
            E = pinned_sym(db, f, newn["size"], None, None)
            N = pinned_sym(db, f, c["args"][2], None, None)
            def unhold(t):
                if isinstance(t, tuple):
                    if t in holds:
                        return ("param", holds[t])
                    return tuple(unhold(x) for x in t)
                return t
            E, N = unhold(E), unhold(N)
            rep.visit(f)
            rep.inst(f.nloc(c), "%s: %s of %s bytes into a buffer of %s x %d bytes" % (f.qn, callee_name(c), symx.canon(N), symx.canon(E), esz))
            rep.ob()
            if symx.has_unknown(E) or symx.has_unknown(N):
                continue
            # strlen(x) + c etc. are uninterpreted calls: comparable only when they occur on both sides
            syms = sorted(symx.atoms(E) | symx.atoms(N), key=repr)
            if not syms or len(syms) > 4:
                continue
            only_n = symx.atoms(N) - symx.atoms(E)
            wit = None
            grid = [0, 1, 2, 7, 64, 1000]
            for vals in itertools.islice(itertools.product(grid, repeat=len(syms)), 4000):
                val = dict(zip(syms, vals))
                vn, ve = symx.evaluate(N, val), symx.evaluate(E, val)
                if vn is None or ve is None:
                    continue
                if vn > ve * esz:
                    wit = {symx.canon(k): v for k, v in val.items()}
                    break
            if wit is None:
                continue
            # a dominating test that mentions a symbol of the count excuses the site (value-level from there on)
            guarded = False
            names = set()
            for a in only_n | symx.atoms(N):
                if a[0] in ("param", "local"):
                    names.add((a[0], a[1]))
                elif a[0] == "field":
                    names.add(tuple(a[1]))
            for cnd, pol in f.cfg.guards(c):
                if cnd is None:
                    continue
                sc = strip(cnd)
                if sc["k"] != "BinaryOperator" or sc["op"] not in ("<", "<=", ">", ">="):
                    continue
                op = sc["op"] if pol else {"<": ">=", "<=": ">", ">": "<=", ">=": "<"}[sc["op"]]
                small = sc["lhs"] if op in ("<", "<=") else sc["rhs"]       # the side that is bounded from above
                for x in walk(small):
                    p = access_path(f, x) if x["k"] in ("DeclRefExpr", "MemberExpr") else None
                    if p is not None and (tuple(p) in names or (p[0], p[1]) in names):
                        guarded = True
            if guarded or not only_n:
                continue
            # only counts that are a caller-supplied query length (directly, or held in a member)
            if not all(a[0] == "param" and a[1] in qlen[f.id] for a in only_n):
                continue
            rep.viol("%s#copy-into-%s" % (f.qn, fmt_path(f, dp).replace("this->", "")), f.nloc(c),
                     "%s copies %s bytes into %s, which it allocated with %s elements: the count depends on %s, which the extent does not "
                     "mention, and no test on the way relates the two (e.g. %s): a long enough argument writes past the buffer" % (
                         f.qn, symx.canon(N), fmt_path(f, dp), symx.canon(E), ", ".join(sorted(symx.canon(a) for a in only_n)), wit), f.qn)


@rule("R-DELETECAST", 1, "an object is deleted through a pointer of its own class family: a delete-expression whose operand is an explicit "
                         "cast between pointer types of unrelated classes (neither a base of the other) runs the wrong destructor on the "
                         "wrong layout")
def r_deletecast(db, rep):
    for f in sorted(db.funcs.values(), key=lambda x: (x.file, x.line)):
        if not f.body:
            continue
        for n in f.live_nodes():
            if n["k"] != "CXXDeleteExpr" or n.get("sub") is None:
                continue
            e = n["sub"]
            while isinstance(e, dict) and e["k"] in ("ParenExpr", "ImplicitCastExpr", "ExprWithCleanups") and e.get("sub") is not None:
                e = e["sub"]
            if not isinstance(e, dict) or e["k"] not in EXPLICIT_CASTS:
                continue
            to_t = f.type(e) or {}
            src = strip(e["sub"])
            from_t = f.type(src) or {}
            tp = f.pointee(to_t) or {}
            fp = f.pointee(from_t) or {}
            a, b = tp.get("rec"), fp.get("rec")
            rep.visit(f)
            rep.inst(f.nloc(n), "%s deletes through a cast from %s* to %s*" % (f.qn, b, a))
            rep.ob()
            if not a or not b or a == b:
                continue
            if a in db.all_bases(b) or b in db.all_bases(a):
                continue
            rep.viol("%s#delete-%s-as-%s" % (f.qn, b.split("::")[-1], a.split("::")[-1]), f.nloc(n),
                     "%s deletes a %s through a pointer cast to the unrelated class %s: undefined behaviour (wrong destructor, wrong "
                     "deallocation size), and whatever was meant to be released is not" % (f.qn, b, a), f.qn)


@rule("R-RANKIDENT", 8, "a kind whose locateRank is the identity (and whose extractRank is extract(rank)) claims that its IDs are "
                        "lexicographic ranks: its building constructor then hands out IDs in input order, i.e. nothing on its build path "
                        "reorders what it stores (sort / stable_sort / qsort / shuffle / reverse). The FM-index sorts suffixes, not strings "
                        "(its ID order is R-FMMAP's subject) and the Re-Pair compressor orders pairs")
def r_rankident(db, rep):
    from rules_dispatch import kinds
    for k in kinds(db):
        lr = db.methods_of(k, "locateRank")
        if not lr or not lr[0].body:
            continue
        lr = lr[0]
        rets = [n for n in lr.live_nodes() if n["k"] == "ReturnStmt" and n.get("value") is not None]
        ident = len(rets) == 1 and access_path(lr, rets[0]["value"]) == ("param", 0) and \
            not any(x["k"] in ("CallExpr", "CXXMemberCallExpr") for x in lr.live_nodes())
        if not ident:
            continue
        for c in [c for c in db.methods_of(k) if c.is_ctor and c.params and "Iterator" in c.tstr(c.params[0]["t"])]:
            clo, inst = db.rta([c])
            rep.visit(c)
            rep.inst(c.loc, "%s: locateRank is the identity; %d functions on the build path" % (k, len(clo)))
            for fid in sorted(clo):
                g = db.funcs[fid]
                if g.file.startswith("RePair/Coder/") or g.file.startswith("FMIndex/"):
                    continue
                for n in g.calls():
                    rep.ob()
                    if n.get("ext") and callee_name(n) in ("sort", "stable_sort", "qsort", "shuffle", "random_shuffle", "reverse", "partial_sort", "nth_element"):
                        # hash kinds sort an index of table positions, not the order in which IDs are handed out? they do not
                        # have identity rank operations, so they do not get here
                        rep.viol("%s#rank-identity-but-reorders:%s" % (k, g.qn), g.nloc(n),
                                 "%s::locateRank returns its argument, i.e. IDs are taken to be lexicographic ranks, but %s (%s) calls %s while "
                                 "building: the IDs follow that order, not the input order, and extractRank(k) is not the k-th smallest string" % (
                                     k, g.qn, " -> ".join(db.chain(clo, fid)[-3:]), callee_name(n)), g.qn)
