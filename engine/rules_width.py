"""R-VARFIELD: width of the empty-field encoding handed to the libcds variable-field primitives."""
from core import *
from rulebase import rule


def _addends(n):
    n = strip(n)
    if n["k"] == "BinaryOperator" and n["op"] == "+":
        return _addends(n["lhs"]) + _addends(n["rhs"])
    return [n]


@rule("R-VARFIELD", 4, "libcds get_var_field / set_var_field take a possibly empty bit field as [ini, fin] with fin = ini + len - 1 and "
                       "recognise the empty one by `ini == fin + 1`, evaluated in size_t: a caller that forms `ini + len - 1` in 32-bit "
                       "unsigned arithmetic gets 0xFFFFFFFF, not `one before ini`, when ini == 0 and len == 0, and the primitive then "
                       "touches word 0 of the array (which may have no words)")
def r_varfield(db, rep):
    for f in sorted(db.funcs.values(), key=lambda x: (x.file, x.line)):
        if not f.body:
            continue
        for n in f.calls():
            nm = callee_name(n)
            if nm not in ("get_var_field", "set_var_field") or not (n.get("fn") or "").startswith("cds_utils::") or len(n.get("args", [])) < 3:
                continue
            ini, fin = n["args"][1], n["args"][2]
            rep.visit(f)
            e = strip(fin)
            while e["k"] in EXPLICIT_CASTS | TRANSPARENT and e.get("sub") is not None and not (e["k"] in EXPLICIT_CASTS and (f.type(e) or {}).get("bits") == 64):
                e = strip(e["sub"])
            t = f.type(e) or {}
            rep.inst(f.nloc(n), "%s: %s(.., ini, fin) with fin computed in %s bits" % (f.qn, nm, t.get("bits")))
            rep.ob()
            if e["k"] != "BinaryOperator" or e["op"] != "-" or const_value(e["rhs"]) is None or const_value(e["rhs"]) < 1:
                continue
            if t.get("kind") != "uint" or (t.get("bits") or 64) >= 64:
                continue
            pi = access_path(f, ini)
            terms = _addends(e["lhs"])
            if pi is None or not any(access_path(f, x) == pi for x in terms) or len(terms) < 2:
                continue
            # the length term: anything but a constant >= 1 can be 0 (get_log2binomial is 0 for the uniform classes)
            others = [x for x in terms if access_path(f, x) != pi]
            if all(const_value(x) is not None and const_value(x) >= 1 for x in others):
                continue
            rep.viol("%s#%s-fin-32bit" % (f.qn, nm), f.nloc(n),
                     "%s hands %s the end position `%s + len - 1` computed in %d-bit unsigned arithmetic: for an empty field at position 0 "
                     "it is 0x%X instead of `one before the start`, the primitive's `ini == fin + 1` test (in size_t) does not fire and "
                     "word 0 of the array is accessed - out of bounds when the array has no words (every block uniform)" % (
                         f.qn, nm, fmt_path(f, pi), t["bits"], (1 << t["bits"]) - 1), f.qn)
