"""R-STUB, R-TAGS, R-TAGSELF: unsupported-operation stubs, type-tag dispatch, tag identity."""
from core import *
from rulebase import rule

BASE = "StringDictionary"
HASH_KINDS = ["StringDictionaryHASHHF", "StringDictionaryHASHRPF", "StringDictionaryHASHUFFDAC",
              "StringDictionaryHASHRPDAC", "StringDictionaryHASHRPDACBlocks"]
FC_KINDS = ["StringDictionaryPFC", "StringDictionaryRPFC", "StringDictionaryHTFC", "StringDictionaryHHTFC",
            "StringDictionaryRPHTFC"]
ORDERED_KINDS = FC_KINDS + ["StringDictionaryRPDAC", "StringDictionaryFMINDEX"]
QUERY_OPS = ["locate", "extract", "locatePrefix", "locateSubstr", "locateRank", "extractPrefix", "extractSubstr",
             "extractRank", "extractTable"]

# Unsupported-operation matrix, transcribed from the statement of C16.
STUB_MATRIX = {}
for _k in HASH_KINDS:
    STUB_MATRIX[_k] = ["locatePrefix", "locateSubstr", "locateRank", "extractPrefix", "extractSubstr", "extractRank"]
for _k in FC_KINDS + ["StringDictionaryRPDAC"]:
    STUB_MATRIX[_k] = ["locateSubstr", "extractSubstr"]
STUB_MATRIX["StringDictionaryXBW"] = ["extractTable"]
GUARDED_STUBS = {"StringDictionaryFMINDEX": (["locateSubstr", "extractSubstr"], "BWTsampling")}


def kinds(db):
    ks = sorted(k for k in db.all_subclasses(BASE) if not db.records[k].get("abstract"))
    if len(ks) < 13:
        raise AnalysisBroken("expected >=13 concrete StringDictionary kinds, found %d" % len(ks))
    return ks


def method(db, rec, name):
    ms = db.methods_of(rec, name)
    if not ms:
        raise AnalysisBroken("anchor %s::%s not found" % (rec, name))
    if len(ms) > 1:
        raise AnalysisBroken("anchor %s::%s ambiguous" % (rec, name))
    return ms[0]


def is_stream_output_call(n):
    """operator<< on an ostream, std::endl and friends: allowed effect of a stub."""
    fn = n.get("fn", "")
    return n.get("ext") and (fn.startswith("std::") or fn.startswith("operator<<"))


def returns_of(func):
    return [n for n in func.nodes() if n["k"] == "ReturnStmt"]


def stub_obligations(func, rep, region=None, key=None):
    """The statements in `region` (default: whole body) form an effect-free constant-returning stub."""
    nodes = list(walk(region)) if region is not None else list(func.nodes())
    key = key or func.qn
    ok = True
    for n in nodes:
        k = n["k"]
        rep.ob()
        if k == "CXXThisExpr" or (k == "MemberExpr" and n.get("mk") == "field"):
            rep.viol(key + "#reads-state", func.nloc(n), "unsupported operation %s touches object state (%s)" % (
                func.qn, n.get("n", "this")), func.qn)
            ok = False
        elif is_assignment(n) or (k == "UnaryOperator" and n["op"] in ("++", "--", "*")) or k in (
                "CXXNewExpr", "CXXDeleteExpr", "ArraySubscriptExpr"):
            rep.viol(key + "#effect", func.nloc(n), "unsupported operation %s has an effect or dereference (%s)" % (
                func.qn, k), func.qn)
            ok = False
        elif k in ("CallExpr", "CXXMemberCallExpr", "CXXOperatorCallExpr", "CXXConstructExpr"):
            if not is_stream_output_call(n):
                rep.viol(key + "#call:" + n.get("fn", "?"), func.nloc(n),
                         "unsupported operation %s calls %s; only stream output is allowed in a stub" % (
                             func.qn, n.get("fn", "?")), func.qn)
                ok = False
        elif k == "ReturnStmt":
            v = n.get("value")
            if v is not None and const_value(v) != 0:
                rep.viol(key + "#return", func.nloc(n),
                         "unsupported operation %s returns something other than the null constant" % func.qn, func.qn)
                ok = False
    return ok


@rule("R-STUB", 45, "unsupported operations are effect-free and return the null constant of their type")
def r_stub(db, rep):
    for rec, ops in sorted(STUB_MATRIX.items()):
        db.record(rec)
        for op in ops:
            f = method(db, rec, op)
            rep.visit(f)
            rep.inst(f.loc, "%s is an unconditional stub" % f.qn)
            rets = returns_of(f)
            rep.ob()
            if not rets:
                rep.viol(f.qn + "#noreturn", f.loc, "%s has no return statement" % f.qn, f.qn)
            stub_obligations(f, rep)
    for rec, (ops, fld) in sorted(GUARDED_STUBS.items()):
        for op in ops:
            f = method(db, rec, op)
            rep.visit(f)
            rep.inst(f.loc, "%s is a stub when %s == 0" % (f.qn, fld))
            # first statement of the body: if (<fld> == 0) { stub }, and it dominates everything else
            body = f.body.get("c", []) if f.body else []
            rep.ob()
            guard = None
            if body and body[0]["k"] == "IfStmt":
                c = strip(body[0]["cond"])
                if c["k"] == "BinaryOperator" and c["op"] == "==":
                    l, r = strip(c["lhs"]), strip(c["rhs"])
                    for a, b in ((l, r), (r, l)):
                        if access_path(f, a) == ("this", fld) and const_value(b) == 0:
                            guard = body[0]
                elif c["k"] == "UnaryOperator" and c["op"] == "!" and access_path(f, strip(c["sub"])) == ("this", fld):
                    guard = body[0]
            if guard is None and _delegated_stub_guard(db, f, fld, rep):
                rep.notes.append("%s: with %s == 0 every path reaches `return NULL` through effect-free code (the test is made by a helper whose constant result the operation turns into NULL)" % (f.qn, fld))
                continue
            if guard is None:
                rep.viol(f.qn + "#guard", f.loc,
                         "%s: with `%s == 0` the operation is not a stub - it does not start with that test, and following constants under that assumption does not lead through effect-free code to `return NULL`" % (f.qn, fld), f.qn)
                continue
            then = guard["then"]
            stub_obligations(f, rep, region=then, key=f.qn)
            # the guarded region must leave the function (return null) on every path
            rets = [n for n in walk(then) if n["k"] == "ReturnStmt"]
            last = then["c"][-1] if then["k"] == "CompoundStmt" and then.get("c") else then
            rep.ob()
            if last["k"] != "ReturnStmt":
                rep.viol(f.qn + "#fallthrough", f.nloc(then),
                         "%s: the `%s == 0` branch does not end in a return; control reaches the real search" % (f.qn, fld), f.qn)


def _helper_const_under_zero(db, h, pj):
    """Constant the helper h returns, without any effect but stream output (and constant stores through its out-parameters), when
    its parameter pj is 0: its body starts - after such stores - with `if (P == 0) { ...; return K; }`.  None if not of that form."""
    if h.body is None:
        return None
    hb = h.body.get("c", [])
    j = 0
    while j < len(hb):
        x = strip(hb[j])
        if is_assignment(x) and x.get("op") == "=" and const_value(x.get("rhs")) is not None and strip(x["lhs"])["k"] == "UnaryOperator" \
                and strip(x["lhs"])["op"] == "*" and (access_path(h, strip(x["lhs"])["sub"]) or ("",))[0] == "param":
            j += 1
            continue
        break
    if j >= len(hb) or hb[j]["k"] != "IfStmt":
        return None
    g = hb[j]
    gc = strip(g["cond"])
    okc = False
    if gc["k"] == "BinaryOperator" and gc["op"] == "==":
        for a, b in ((gc["lhs"], gc["rhs"]), (gc["rhs"], gc["lhs"])):
            if access_path(h, a) == ("param", pj) and const_value(b) == 0:
                okc = True
    elif gc["k"] == "UnaryOperator" and gc["op"] == "!" and access_path(h, gc["sub"]) == ("param", pj):
        okc = True
    if not okc:
        return None
    gthen = g["then"]
    glast = gthen["c"][-1] if gthen["k"] == "CompoundStmt" and gthen.get("c") else gthen
    if glast["k"] != "ReturnStmt" or glast.get("value") is None or const_value(glast["value"]) is None:
        return None
    for n in walk(gthen):
        k = n["k"]
        if k in ("CallExpr", "CXXMemberCallExpr", "CXXOperatorCallExpr", "CXXConstructExpr") and not is_stream_output_call(n):
            return None
        if is_assignment(n) or k in ("CXXNewExpr", "CXXDeleteExpr", "ArraySubscriptExpr", "CXXThisExpr") or (k == "MemberExpr" and n.get("mk") == "field"):
            return None
    return const_value(glast["value"])


def _delegated_stub_guard(db, f, fld, rep):
    """Evaluates the operation under the assumption this->fld == 0, following only constants: declarations, a call to a helper
    that receives the field and returns a constant (effect-free) when it is 0, tests of that constant.  True when every such path
    reaches `return <null>` through effect-free code; False otherwise (unknown statement, effect, non-null return)."""
    env = {}

    def helper_const(call):
        call = strip(call)
        if call["k"] not in ("CallExpr", "CXXMemberCallExpr") or call.get("f") not in db.funcs:
            return None
        pj = next((j for j, a in enumerate(call.get("args", [])) if access_path(f, a) == ("this", fld)), None)
        if pj is None:
            return None
        return _helper_const_under_zero(db, db.funcs[call["f"]], pj)

    def ev(c):
        c = strip(c)
        cv = const_value(c)
        if cv is not None:
            return cv
        if access_path(f, c) == ("this", fld):
            return 0
        p = access_path(f, c)
        if p in env:
            return env[p]
        if c["k"] == "UnaryOperator" and c["op"] == "!":
            v = ev(c["sub"])
            return None if v is None else int(not v)
        if c["k"] == "BinaryOperator" and c["op"] in ("==", "!=", ">", "<", ">=", "<="):
            a, b = ev(c["lhs"]), ev(c["rhs"])
            if a is None or b is None:
                return None
            return int({"==": a == b, "!=": a != b, ">": a > b, "<": a < b, ">=": a >= b, "<=": a <= b}[c["op"]])
        if c["k"] in ("CallExpr", "CXXMemberCallExpr"):
            return helper_const(c)
        return None

    def run(stmts):
        """True: returned null; False: failed; None: fell through"""
        for st in stmts:
            k = st["k"]
            if k == "DeclStmt":
                for d in st["decls"]:
                    if d.get("init") is None:
                        continue
                    v = ev(d["init"])
                    if v is None:
                        return False
                    env[("local", d["d"])] = v
                continue
            x = strip(st)
            if is_assignment(x) and x.get("op") == "=" and (access_path(f, x["lhs"]) or ("",))[0] == "local":
                v = ev(x["rhs"])
                if v is None:
                    return False
                env[access_path(f, x["lhs"])] = v
                continue
            if k == "IfStmt":
                v = ev(st["cond"])
                if v is None:
                    return False
                br = st["then"] if v else st.get("else")
                if br is None:
                    continue
                r = run(br.get("c", []) if br["k"] == "CompoundStmt" else [br])
                if r is not None:
                    return r
                continue
            if k == "ReturnStmt":
                return st.get("value") is not None and const_value(st["value"]) == 0
            if x["k"] in ("CallExpr", "CXXMemberCallExpr", "CXXOperatorCallExpr") and is_stream_output_call(x):
                continue
            return False
        return None

    return run(f.body.get("c", []) if f.body else []) is True


def _tag_narrowed(f, first_load, var):
    """The tag is read as a W-bit value but kept in a narrower variable before it is compared: (bits read, bits kept) or None."""
    lt = f.type(first_load)
    if var is None or not lt:
        return None
    for n in f.nodes():
        if n["k"] == "DeclStmt":
            for d in n["decls"]:
                if d.get("d") == var:
                    vt = f.types[d["t"]]
                    if vt.get("bits") and lt.get("bits") and vt["bits"] < lt["bits"]:
                        return (lt["bits"], vt["bits"])
    return None


def _ekey(f, n):
    """Structural key of an lvalue expression (access path when there is one; otherwise kind / name / operator of the nodes)."""
    n = strip(n)
    p = access_path(f, n)
    if p is not None:
        return ("path",) + tuple(p)
    return (n["k"], n.get("n") or n.get("op") or n.get("opcall") or callee_name(n) if n["k"] in ("CallExpr", "CXXMemberCallExpr") else (n.get("n") or n.get("op") or n.get("opcall")),
            tuple(_ekey(f, c) for c in children(n)))


def tag_check_in_loader(db, f, rep):
    """K::load: first value read from the stream is compared against a constant T and the function
    returns NULL (before any allocation) when it differs. Returns (T value, T name) or None."""
    first_load = None
    for n in f.nodes():
        if n["k"] == "CallExpr" and callee_name(n) == "loadValue":
            first_load = n
            break
    if first_load is None:
        return None
    # variable initialised by it
    var = None
    for n in f.nodes():
        if n["k"] == "DeclStmt":
            for d in n["decls"]:
                ini = d.get("init")
                if ini is not None and strip(ini) is first_load:
                    var = d["d"]
    # ... or the lvalue it is stored into (dict->type = loadValue<..>(in)): compared structurally below
    tag_lv = None
    for n in f.nodes():
        if is_assignment(n) and n.get("op") == "=" and n.get("rhs") is not None and strip(n["rhs"]) is first_load:
            tag_lv = _ekey(f, n["lhs"])

    def is_tag(a):
        return (var is not None and a["k"] == "DeclRefExpr" and a.get("d") == var) or a is first_load or \
            (tag_lv is not None and _ekey(f, a) == tag_lv)

    def disjuncts(c):
        c = strip(c)
        if c["k"] == "BinaryOperator" and c["op"] == "||":
            return disjuncts(c["lhs"]) + disjuncts(c["rhs"])
        return [c]
    for n in f.nodes():
        if n["k"] == "IfStmt":
            # the rejecting test may share its `if` with other reasons to reject:  if (tag != T || option invalid) return NULL;
            for c in disjuncts(n["cond"]):
              if c["k"] == "BinaryOperator" and c["op"] == "!=":
                l, r = strip(c["lhs"]), strip(c["rhs"])
                for a, b in ((l, r), (r, l)):
                    if is_tag(a) and const_value(b) is not None:
                        return {"value": const_value(b), "name": strip(b).get("n", str(const_value(b))), "if": n, "reject": n["then"], "pol": False,
                                "cond": c, "var": var, "load": first_load, "narrow": _tag_narrowed(f, first_load, var)}
            # the accepting spelling:  if (tag == T) { ... load ... } else return NULL;   (or: ... } return NULL;)
            c = strip(n["cond"])
            if c["k"] == "BinaryOperator" and c["op"] == "==":
                l, r = strip(c["lhs"]), strip(c["rhs"])
                for a, b in ((l, r), (r, l)):
                    if is_tag(a) and const_value(b) is not None:
                        rej = n.get("else")
                        if rej is None:
                            par = f.parent(n)
                            sib = par.get("c", []) if par is not None and par["k"] == "CompoundStmt" else []
                            idx = next((i for i, x in enumerate(sib) if x is n), -1)
                            rej = {"k": "CompoundStmt", "id": -n["id"], "c": sib[idx + 1:]} if idx >= 0 else None
                        return {"value": const_value(b), "name": strip(b).get("n", str(const_value(b))), "if": n, "reject": rej, "pol": True,
                                "cond": c, "var": var, "load": first_load, "narrow": _tag_narrowed(f, first_load, var)}
    return None


def _owned_early_object(db, ld, newn, k, rep):
    """`std::unique_ptr<K> d(new K())` ahead of the tag test: the object is destroyed when the image is rejected, which is clean
    provided K's destructor only releases members that this (argument-less) construction has initialised."""
    par = ld.parent(newn)
    hops = 0
    while par is not None and par["k"] != "CXXConstructExpr" and hops < 4:
        par = ld.parent(par)
        hops += 1
    if par is None or par["k"] != "CXXConstructExpr" or not (par.get("rec") or "").startswith("std::unique_ptr"):
        return False
    ini = strip(newn.get("init")) if newn.get("init") is not None else None
    if ini is None or ini["k"] != "CXXConstructExpr" or ini.get("args"):
        return False
    ctor = db.funcs.get(ini.get("f"))
    dtors = [d for d in db.methods_of(k) if d.is_dtor]
    if ctor is None or not dtors:
        return False
    import rules_state
    assigned = set()
    for fid in db.closure([ctor]):
        assigned |= set(rules_state.assigned_fields(db, db.funcs[fid]))
    ok = True
    for (rec, fld), (line, deref) in rules_state.read_fields(db, dtors[0]).items():
        fd = db.field(rec, fld) if rec else None
        if fd is None or fd[2][fd[1]["t"]]["kind"] != "ptr":
            continue
        rep.ob()
        if (rec, fld) not in assigned:
            ok = False
            rep.viol(k + "::load#early-object-" + fld, ld.nloc(newn),
                     "%s creates the dictionary before the tag test; when the image is rejected the object is destroyed, and %s reads "
                     "%s::%s, which %s never initialises: delete of an indeterminate pointer" % (ld.qn, dtors[0].qn, rec, fld, ctor.qn), ld.qn)
    return ok


@rule("R-TAGS", 13, "every kind has a distinct tag; its loader rejects other tags before allocating; "
                    "the generic loader dispatches every tag to its kind and returns NULL otherwise")
def r_tags(db, rep):
    ks = kinds(db)
    gl = db.fn("StringDictionary::load")
    rep.visit(gl)
    # generic loader: switch arms
    arms = {}     # tag value -> callee qn
    default_returns_null = True
    switch = None
    for n in gl.nodes():
        if n["k"] == "SwitchStmt":
            switch = n
    if switch is None:
        raise AnalysisBroken("StringDictionary::load has no switch on the tag")
    # the scrutinee keeps all the bits that were read
    rep.ob()
    sc = strip(switch.get("cond")) if switch.get("cond") is not None else None
    if sc is not None and sc["k"] == "DeclRefExpr" and sc.get("dk") == "local":
        ini = single_def_init(gl, sc["d"])
        st, it = gl.type(sc), (gl.type(strip(ini)) if ini is not None else None)
        if ini is not None and strip(ini)["k"] == "CallExpr" and callee_name(strip(ini)) == "loadValue" and st and it and \
                st.get("bits") and it.get("bits") and st["bits"] < it["bits"]:
            rep.viol("StringDictionary::load#tag-narrowed", gl.nloc(switch),
                     "the generic loader reads a %d-bit tag but switches on its low %d bits: unknown tags that agree in those bits reach a kind's loader" % (
                         it["bits"], st["bits"]), gl.qn)
    body = switch["body"].get("c", [])
    cur = []
    default_null = False
    for st in body:
        s = st
        while s["k"] in ("CaseStmt", "DefaultStmt"):
            if s["k"] == "CaseStmt":
                cur.append(s.get("v"))
            else:
                cur.append("default")
            s = s["sub"]
        # s is the first statement of the arm
        for c in walk(s):
            if c["k"] == "CallExpr" and c.get("fn", "").endswith("::load"):
                for v in cur:
                    arms[v] = (c["fn"], c)
        if "default" in cur and "default" not in arms:
            rets = [x for x in walk(s) if x["k"] == "ReturnStmt"]
            if rets and all(const_value(x.get("value")) == 0 for x in rets):
                default_null = True
        if any(x["k"] in ("ReturnStmt", "BreakStmt") for x in walk(s)):
            cur = []
    if "default" in arms:
        rep.ob()
        rep.viol("StringDictionary::load#default", gl.nloc(arms["default"][1]),
                 "generic loader constructs a dictionary for unknown tags (default arm calls %s)" % arms["default"][0], gl.qn)
    # after the switch, the function must return NULL
    rep.ob()
    tail = [n for n in gl.body["c"] if n["k"] == "ReturnStmt"]
    if not default_null and (not tail or const_value(tail[-1].get("value")) != 0):
        rep.viol("StringDictionary::load#fallthrough", gl.loc,
                 "generic loader does not return NULL when no case matches", gl.qn)
    # the scrutinee must be the tag read from the image
    tags = {}
    for k in ks:
        ld = db.methods_of(k, "load")
        if not ld:
            raise AnalysisBroken("%s has no load" % k)
        ld = ld[0]
        rep.visit(ld)
        tc = tag_check_in_loader(db, ld, rep)
        rep.inst(ld.loc, "%s: tag check and dispatch" % ld.qn)
        rep.ob()
        if tc is None:
            rep.viol(k + "::load#tagcheck", ld.loc,
                     "%s does not compare the first value of the image with its own tag and bail out" % ld.qn, ld.qn)
            continue
        tags[k] = tc
        rep.ob()
        if tc.get("narrow"):
            rep.viol(k + "::load#tag-narrowed", ld.nloc(tc["if"]),
                     "%s reads a %d-bit tag but compares only its low %d bits: unknown tags that agree in those bits are accepted" % (
                         ld.qn, tc["narrow"][0], tc["narrow"][1]), ld.qn)
        # the rejecting branch returns NULL
        rep.ob()
        rets = [n for n in walk(tc["reject"]) if n["k"] == "ReturnStmt"] if tc.get("reject") is not None else []
        if not rets or any(const_value(r.get("value")) != 0 for r in rets):
            rep.viol(k + "::load#reject", ld.nloc(tc["if"]), "%s: tag mismatch does not return NULL" % ld.qn, ld.qn)
        # nothing is allocated / no other stream read happens unless the tag matched
        cfg = ld.cfg
        for n in ld.nodes():
            if n is tc["load"]:
                continue
            is_alloc = n["k"] == "CXXNewExpr"
            is_read = n["k"] in ("CallExpr", "CXXMemberCallExpr") and (
                callee_name(n) == "loadValue" or n.get("fn", "").endswith("::load") or n.get("fn", "").endswith("::read"))
            if not (is_alloc or is_read):
                continue
            rep.ob()
            pos = cfg.position(n)
            doms = cfg.guards(n)
            if is_alloc and _owned_early_object(db, ld, n, k, rep):
                continue
            if not any(c is not None and strip(c) is tc["cond"] and pol is tc["pol"] for c, pol in doms):
                rep.viol(k + "::load#early:" + (n.get("fn") or "new"), ld.nloc(n),
                         "%s: %s happens on a path where the tag has not been checked against %s" % (
                             ld.qn, "allocation" if is_alloc else "stream read " + n.get("fn", ""), tc["name"]), ld.qn)
    # distinct tags
    byval = {}
    for k, tc in tags.items():
        rep.ob()
        if tc["value"] in byval:
            rep.viol("tagclash:%s" % k, db.methods_of(k, "load")[0].loc,
                     "kinds %s and %s use the same tag %d" % (k, byval[tc["value"]], tc["value"]), k)
        byval[tc["value"]] = k
    # dispatcher covers each tag with the right loader
    for k, tc in sorted(tags.items()):
        rep.ob()
        arm = arms.get(tc["value"])
        if arm is None:
            rep.viol("StringDictionary::load#missing:" + k, gl.loc,
                     "generic loader has no case for tag %s (%d): an image written by %s::save loads as NULL" % (
                         tc["name"], tc["value"], k), gl.qn)
        elif arm[0] != k + "::load":
            rep.viol("StringDictionary::load#wrong:" + k, gl.nloc(arm[1]),
                     "generic loader sends tag %s to %s instead of %s::load" % (tc["name"], arm[0], k), gl.qn)
    for v, (callee, node) in sorted((a for a in arms.items() if a[0] != "default"), key=lambda x: str(x[0])):
        rep.ob()
        if v not in byval:
            rep.viol("StringDictionary::load#unknown:%s" % v, gl.nloc(node),
                     "generic loader has a case for tag %s that no kind's loader accepts" % v, gl.qn)
    rep.notes.append("tags: " + ", ".join("%s=%d" % (k.replace("StringDictionary", ""), t["value"]) for k, t in sorted(tags.items())))
    return tags


@rule("R-TAGSELF", 13, "the tag a kind's save writes is the kind's own tag on every creation path")
def r_tagself(db, rep):
    ks = kinds(db)
    for k in ks:
        sv = method(db, k, "save")
        ld = db.methods_of(k, "load")[0]
        rep.visit(sv)
        tc = tag_check_in_loader(db, ld, rep)
        if tc is None:
            rep.inst(sv.loc, "%s: loader has no tag check (reported by R-TAGS)" % sv.qn)
            continue
        first = None
        for n in sv.nodes():
            if n["k"] == "CallExpr" and callee_name(n) == "saveValue":
                first = n
                break
        rep.inst(sv.loc, "%s writes tag %s first" % (sv.qn, tc["name"]))
        rep.ob()
        if first is None:
            rep.viol(k + "::save#notag", sv.loc, "%s writes no tag" % sv.qn, sv.qn)
            continue
        arg = strip(first["args"][1])
        if const_value(arg) is not None:
            if const_value(arg) != tc["value"]:
                rep.viol(k + "::save#wrongtag", sv.nloc(first), "%s writes tag %d, its loader expects %d" % (
                    sv.qn, const_value(arg), tc["value"]), sv.qn)
            continue
        if access_path(sv, arg) != ("this", "type"):
            rep.viol(k + "::save#tagexpr", sv.nloc(first), "%s: first value written is neither the tag constant nor the type field" % sv.qn, sv.qn)
            continue
        # every creation path assigns type := T (constant)
        creators = [f for f in db.methods_of(k) if f.is_ctor] + [ld]
        for f in creators:
            rep.visit(f)
            for lv, w in written_lvalues(f):
                p = access_path(f, lv)
                if p is None or p[-1] != "type" or not (len(p) == 2 and p[0] == "this" or len(p) == 3 and p[0] == "local"):
                    continue
                t = f.type(lv)
                rep.ob()
                rhs = w.get("rhs")
                v = const_value(rhs) if rhs is not None else None
                if v != tc["value"]:
                    rep.viol("%s#type:=%s" % (f.qn, "nonconst" if v is None else v), f.nloc(w),
                             "%s stores %s into the type field; %s::save writes that field as the image tag, "
                             "so the re-saved image no longer carries %s" % (
                                 f.qn, "a non-constant (the load option)" if v is None else v, k, tc["name"]), f.qn)
        # and at least one assignment exists on each path: constructors that do not delegate must assign it
        for f in creators:
            if f is ld:
                continue
            delegating = any(i.get("delegating") for i in f.raw.get("inits", []))
            if delegating:
                continue
            rep.ob()
            assigns = [1 for lv, w in written_lvalues(f) if access_path(f, lv) == ("this", "type")]
            if not assigns:
                rep.viol("%s#type-unset" % f.qn, f.loc,
                         "constructor %s leaves the type field unset although %s::save writes it" % (f.qn, k), f.qn)
