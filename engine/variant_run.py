#!/usr/bin/env python3
"""Development aid: apply each given patch to a scratch copy of /repo's current tree, run ALL rules, and print the violations
that are not listed known findings, mapped to the properties whose checks contain the rule (nothing in /repo is touched).
usage: variant_run.py <patch.diff> ..."""
import json, os, shutil, subprocess, sys
HERE = os.path.dirname(os.path.abspath(__file__))
sys.path.insert(0, HERE)
import core, rulebase, props, selftest
from factsdb import AnalysisBroken, VERIF

known = {(k["rule"], k["key"]) for k in json.load(open(os.path.join(VERIF, "known_findings.json")))["findings"]}
for pf in sys.argv[1:]:
    scratch = selftest.make_scratch()
    try:
        r = subprocess.run(["patch", "-p1", "--no-backup-if-mismatch", "-s", "-f", "-d", scratch, "-i", os.path.abspath(pf)], stdout=subprocess.PIPE, stderr=subprocess.STDOUT)
        if r.returncode != 0:
            print(pf, "PATCH-DOES-NOT-APPLY", r.stdout.decode()[-200:])
            continue
        try:
            db = core.DB(repo=scratch)
        except AnalysisBroken as e:
            print(pf, "ANALYSIS-BROKEN", str(e)[:200])
            continue
        out = []
        for rn in sorted(rulebase.RULES):
            ps = [p for p, s in props.PROPS.items() if rn in s["rules"]]
            if not ps:
                continue
            try:
                rep = rulebase.run_rule(rn, db)
            except AnalysisBroken as e:
                out.append("  BROKEN %s (%s): %s" % (rn, ",".join(sorted(ps)), str(e)[:200]))
                continue
            if len(rep.instances) < rep.expected_min:
                out.append("  BROKEN %s (%s): %d instances < floor %d" % (rn, ",".join(sorted(ps)), len(rep.instances), rep.expected_min))
            for v in rep.violations:
                if (v.rule, v.key) not in known:
                    out.append("  VIOL %s (%s) %s %s :: %s" % (rn, ",".join(sorted(ps)), v.loc, v.key, v.msg[:220]))
        print(pf, "clean" if not out else "%d report(s)" % len(out), flush=True)
        for o in out:
            print(o, flush=True)
    finally:
        shutil.rmtree(scratch, ignore_errors=True)
