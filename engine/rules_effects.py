"""R-SAVEPURE, R-QUERYPURE, R-PATTERN, R-KILLUSE: effect rules on top of effects.py."""
from core import *
from rulebase import rule
import effects
from effects import fmt_region, get_effects
import rules_serial
from rules_dispatch import kinds, QUERY_OPS
import symx


def origin_of(E, fid, kind, item):
    """(function, line) of the statement that ultimately produces an effect, following call provenance."""
    chain = E.explain(fid, kind, item)
    seen = set()
    cur_f, cur_item = fid, item
    last = (fid, None)
    while True:
        o = E.sum[cur_f].origin.get((kind, cur_item))
        if o is None or (cur_f, cur_item) in seen:
            break
        seen.add((cur_f, cur_item))
        last = (o[0], o[1])
        if o[2] is None:
            break
        cur_f, cur_item = o[2][0], o[2][1]
    return last, chain


STD_STREAMS = ("c:@N@std@cout", "c:@N@std@cerr", "c:@N@std@clog")


def allowed_global(r):
    """Output to the process' standard streams is an allowed effect (it is not dictionary state)."""
    return r[0] == "global" and r[1] in STD_STREAMS


def item_str(kind, item):
    if kind == "mod":
        r, l = item
        return "write to %s%s" % (fmt_region(r), ("." + l) if l else "")
    return "free of %s" % fmt_region(item)


def report_effects(db, E, rep, entry, bad, rule_key_prefix, why):
    """bad: [(kind, item)] for entry function. One violation per originating statement."""
    for kind, item in bad:
        (ofid, oline), chain = origin_of(E, entry.id, kind, item)
        of = db.funcs[ofid]
        # identity: the originating function + what it does there (not the entry point: one defect, one finding)
        o_item = item
        cur_f, cur_item = entry.id, item
        seen = set()
        while True:
            o = E.sum[cur_f].origin.get((kind, cur_item))
            if o is None or o[2] is None or (cur_f, cur_item) in seen:
                break
            seen.add((cur_f, cur_item))
            cur_f, cur_item = o[2][0], o[2][1]
        key = "%s#%s" % (of.qn, item_str(kind, cur_item).replace(" ", "-"))
        yield key, "%s:%s" % (of.file, oline), "%s: %s reaches %s through %s" % (why, entry.qn, item_str(kind, item), " -> ".join(chain)), of.qn


def save_functions(db):
    pairs = [(w, r) for w, r in rules_serial.find_pairs(db) if not rules_serial.is_dispatcher(db, r)]
    cone = rules_serial.mirror_cone(db, pairs)
    out = {}
    for w, r in pairs:
        wkey = w.rec or rules_serial.nested_key(db, w.qn)
        if wkey in cone:
            out[w.id] = w
    return list(out.values())


@rule("R-SAVEPURE", 40, "the call closure of every save writes nothing but the stream and its own locals, and frees nothing")
def r_savepure(db, rep):
    E = get_effects(db)
    seen = {}
    for w in sorted(save_functions(db), key=lambda f: (f.file, f.line)):
        rep.visit(w)
        sidx = rules_serial.stream_param(w, rules_serial.STREAM_OUT)
        S = E.sum[w.id]
        rep.inst(w.loc, "%s: MOD=%d FREE=%d effects in its closure" % (w.qn, len(S.mod), len(S.free)))
        bad = []
        for (r, l) in sorted(S.mod, key=str):
            rep.ob()
            if r[0] == "param" and r[1] == sidx:
                continue
            if r[0] == "unknown" or allowed_global(r):
                continue
            bad.append(("mod", (r, l)))
        for key, loc, msg, fn in report_effects(db, E, rep, w, bad, "save", "save is not pure"):
            if key in seen:
                seen[key].append(w.qn)
                continue
            seen[key] = [w.qn]
            rep.viol(key, loc, msg, fn)
    rep.notes.append("effects analysis: %d functions, fixpoint after %d rounds" % (len(db.funcs), E.rounds))


def query_methods(db):
    out = []
    for k in kinds(db):
        for op in QUERY_OPS + ["getSize"]:
            ms = db.methods_of(k, op)
            for m in ms:
                out.append((k, op, m))
    for op in ("numElements", "maxLength"):
        out.append(("StringDictionary", op, db.fn("StringDictionary::" + op)))
    return out


def iterator_classes(db):
    its = sorted(db.all_subclasses("IteratorDictString") | db.all_subclasses("IteratorDictID"))
    return [i for i in its if i in db.records]


def borrowed_fields(db, E, rec):
    """Pointer fields of an iterator class that (may) point into memory the iterator does not own:
    assigned from a constructor parameter (or derived from another borrowed field)."""
    r = db.records[rec]
    fields = {}
    for f in r["fields"]:
        t = r["_types"][f["t"]]
        if t["kind"] == "ptr":
            vals = E.fieldpts.get((rec, f["n"]), set())
            fields[f["n"]] = vals
    borrowed = set()
    changed = True
    while changed:
        changed = False
        for fn, vals in fields.items():
            if fn in borrowed:
                continue
            for v in vals:
                if v[0] in ("param", "unknown", "global") or (v[0] == "this" and len(v) >= 2 and v[1] in borrowed):
                    borrowed.add(fn)
                    changed = True
                    break
    return borrowed, fields


# (Per-operation variants R-PURE-BASIC/-PREFIX/-SUBSTR/-RANK used to be registered under C01-C05.  They were withdrawn: a query-side
# cache that is written correctly does not break those properties, and the negative controls benign/R4_* contain such caches; the
# rule is kept where the property itself states immutability, C14.)


@rule("R-QUERYPURE", 120, "no query of any kind, and no iterator step, writes dictionary state, a global, or memory "
                          "an iterator merely borrows; iterators write only their own fields and buffers")
def r_querypure(db, rep):
    _querypure(db, rep, query_methods(db), iterator_classes(db))


def _querypure(db, rep, qmethods, itclasses):
    E = get_effects(db)
    seen = set()
    # function-local statics in the query closure: a non-const one is hidden state; a const one whose initialiser is computed
    # from run-time values (the first query's arguments, the dictionary's fields) freezes the first call's value for all later calls
    roots = [m for _, _, m in qmethods]
    for it in itclasses:
        for name in ("hasNext", "next"):
            roots.extend(db.methods_of(it, name))
    for fid in sorted(db.closure(roots)):
        f = db.funcs[fid]
        if not f.body or f.file.startswith("libcds/"):
            continue
        for n in f.live_nodes():
            if n["k"] != "DeclStmt":
                continue
            for d in n["decls"]:
                if not d.get("static"):
                    continue
                rep.ob()
                is_const = f.types[d["t"]].get("const")
                ini = d.get("init")
                dynamic = ini is not None and const_value(ini) is None and any(
                    x["k"] in ("DeclRefExpr", "MemberExpr", "CXXThisExpr", "CallExpr", "CXXMemberCallExpr") and x.get("dk") not in ("global", "enumconst")
                    for x in walk(ini))
                if (not is_const) or dynamic:
                    key = "%s#static-local-%s" % (f.qn, d["n"])
                    if key not in seen:
                        seen.add(key)
                        rep.viol(key, f.nloc(n),
                                 "%s, reached from a query, keeps the function-local static `%s`%s: the answer to a query then depends on "
                                 "earlier queries (and on other dictionaries in the process)" % (
                                     f.qn, d["n"], " initialised from run-time values on the first call" if is_const else ""), f.qn)
    for k, op, m in qmethods:
        rep.visit(m)
        S = E.sum[m.id]
        rep.inst(m.loc, "%s: MOD=%d FREE=%d" % (m.qn, len(S.mod), len(S.free)))
        bad = []
        for (r, l) in sorted(S.mod, key=str):
            rep.ob()
            if r[0] in ("this", "global") and not allowed_global(r):
                bad.append(("mod", (r, l)))
        for key, loc, msg, fn in report_effects(db, E, rep, m, bad, "query", "query is not pure"):
            if key not in seen:
                seen.add(key)
                rep.viol(key, loc, msg, fn)
    for it in itclasses:
        borrowed, fields = borrowed_fields(db, E, it)
        for name in ("hasNext", "next"):
            for m in db.methods_of(it, name):
                rep.visit(m)
                S = E.sum[m.id]
                rep.inst(m.loc, "%s: MOD=%d (borrowed pointer fields: %s)" % (m.qn, len(S.mod), ",".join(sorted(borrowed)) or "-"))
                bad = []
                for (r, l) in sorted(S.mod, key=str):
                    rep.ob()
                    if r[0] == "global" and not allowed_global(r):
                        bad.append(("mod", (r, l)))
                    elif r[0] == "this" and len(r) >= 2 and r[1] in borrowed:
                        bad.append(("mod", (r, l)))
                for r in sorted(S.free, key=str):
                    rep.ob()
                    if r[0] == "global" or (r[0] == "this" and len(r) >= 2 and r[1] in borrowed):
                        bad.append(("free", r))
                for key, loc, msg, fn in report_effects(db, E, rep, m, bad, "iter", "iterator step writes memory it does not own"):
                    if key not in seen:
                        seen.add(key)
                        rep.viol(key, loc, msg, fn)


# ---------------------------------------------------------------------------------------------------
def stores_through_param(db, E, f, pidx):
    """Store statements in f whose target block is what parameter pidx points to."""
    lp = E.localpts.get(f.id, {})
    out = []
    for lv, w in written_lvalues(f):
        regs = E.lvalue_regions(f, lv, lp)
        if ("param", pidx) in regs:
            out.append((lv, w))
    return out


def same_location(f, a, b):
    """Two lvalues denote the same location (same base path, same canonical index expression)."""
    a, b = strip(a), strip(b)
    if a["k"] != b["k"]:
        return False
    if a["k"] == "ArraySubscriptExpr":
        if access_path(f, a["base"]) != access_path(f, b["base"]) or access_path(f, a["base"]) is None:
            return False
        sb = rules_serial.SeqBuilder(db_of(f), f, "c", nosubst=True)
        return symx.canon(sb.sym(a["idx"])) == symx.canon(sb.sym(b["idx"]))
    pa, pb = access_path(f, a), access_path(f, b)
    return pa is not None and pa == pb


def db_of(f):
    return f.db


@rule("R-PATTERN", 1, "every store through the pattern pointer of a query is undone (original terminator 0 restored at the "
                      "same location) on every path to every exit of the storing function")
def r_pattern(db, rep):
    E = get_effects(db)
    seen = set()
    n_entry = 0
    for k, op, m in query_methods(db):
        if op not in ("locate", "locatePrefix", "locateSubstr", "extractPrefix", "extractSubstr"):
            continue
        S = E.sum[m.id]
        n_entry += 1
        rep.ob()
        for (r, l) in sorted(S.mod, key=str):
            if not (r[0] == "param" and r[1] == 0):
                continue
            # follow provenance to the storing function
            cur_f, cur_item = m.id, (r, l)
            visited = set()
            while True:
                o = E.sum[cur_f].origin.get(("mod", cur_item))
                if o is None or o[2] is None or (cur_f, cur_item) in visited:
                    break
                visited.add((cur_f, cur_item))
                cur_f, cur_item = o[2][0], o[2][1]
            g = db.funcs[cur_f]
            greg = cur_item[0]
            if greg[0] != "param":
                continue
            if (g.id, greg[1]) in seen:
                continue
            seen.add((g.id, greg[1]))
            rep.visit(g)
            stores = stores_through_param(db, E, g, greg[1])
            cfg = g.cfg
            for lv, w in stores:
                rhs = w.get("rhs")
                is_restore = rhs is not None and const_value(rhs) == 0
                if is_restore:
                    continue
                rep.inst(g.nloc(w), "%s stores through its parameter %d, which receives the pattern of %s" % (g.qn, greg[1], m.qn))
                rep.ob()
                restores = [(lv2, w2) for lv2, w2 in stores if w2 is not w and w2.get("rhs") is not None and
                            const_value(w2["rhs"]) == 0 and same_location(g, lv, lv2)]
                pos = cfg.position(w)
                rpos = [cfg.position(w2) for _, w2 in restores]
                if cfg.path_exists(pos, [cfg.exit], avoid=rpos):
                    # find an offending return
                    off = None
                    for rt in [n for n in g.nodes() if n["k"] == "ReturnStmt"]:
                        rp = cfg.position(rt)
                        if rp and cfg.path_exists(pos, [rp], avoid=rpos):
                            off = rt
                            break
                    rep.viol("%s#param%d-not-restored" % (g.qn, greg[1]), g.nloc(off or w),
                             "%s overwrites the caller's pattern (%s) and the exit at %s is reachable without restoring the terminator; "
                             "reached from %s" % (g.qn, g.nloc(w), g.nloc(off) if off else "end of function", m.qn), g.qn)
    rep.notes.append("%d public pattern-taking queries examined" % n_entry)
    if not rep.instances and n_entry:
        # zero stores through the pattern is a legitimate (and better) state of the code: keep the rule alive
        rep.inst("-", "no store through any query pattern exists in the code base")


# ---------------------------------------------------------------------------------------------------
def public_ops(db, rec):
    out = []
    r = db.records.get(rec)
    if not r:
        return out
    for m in r["methods"]:
        if m.get("access") == "public" and not m.get("ctor") and not m.get("dtor") and not m.get("static"):
            f = db.funcs.get(m["id"])
            if f is not None:
                out.append(f)
    return out


def reads_of(db, E, f, memo):
    """Fields of `this` (depth 1) that the closure of f may read or write: set of names."""
    if f.id in memo:
        return memo[f.id]
    memo[f.id] = set()
    out = set()
    for n in f.nodes():
        if n["k"] == "MemberExpr" and n.get("mk") == "field":
            p = access_path(f, n)
            if p and p[0] == "this" and len(p) >= 2:
                out.add(p[1])
    for n, t in db.callees(f):
        if t in db.funcs and n is not None and n["k"] == "CXXMemberCallExpr":
            o = n.get("obj")
            if o is None or strip(o)["k"] == "CXXThisExpr":
                out |= reads_of(db, E, db.funcs[t], memo)
    memo[f.id] = out
    return out


@rule("R-KILLUSE", 100, "no query or save of a dictionary frees memory reachable from the dictionary (so no history "
                        "save;save or query;query touches freed memory); no loader leaves a field dangling that a method uses")
def r_killuse(db, rep):
    E = get_effects(db)
    memo = {}
    recs = set(kinds(db))
    for w in save_functions(db):
        if w.rec:
            recs.add(w.rec)
    seen = set()
    entry = [(k, op, m) for k, op, m in query_methods(db)] + [(k, "save", m) for k in kinds(db) for m in db.methods_of(k, "save")]
    entry += [(w.rec, "save", w) for w in save_functions(db) if w.rec and w.rec not in kinds(db)]
    for k, opn, op in entry:
        rep.visit(op)
        S = E.sum[op.id]
        rep.inst(op.loc, "%s: frees %d regions in its closure" % (op.qn, len(S.free)))
        rep.ob()
        for r in sorted(S.free, key=str):
            rep.ob()
            if r[0] not in ("this", "global"):
                continue
            (ofid, oline), chain = origin_of(E, op.id, "free", r)
            of = db.funcs[ofid]
            cur_f, cur_item = op.id, r
            vis = set()
            while True:
                o = E.sum[cur_f].origin.get(("free", cur_item))
                if o is None or o[2] is None or (cur_f, cur_item) in vis:
                    break
                vis.add((cur_f, cur_item))
                cur_f, cur_item = o[2][0], o[2][1]
            # free-then-replace in the originating function is not a kill
            if cur_item[0] == "this" and len(cur_item) == 2:
                if any(access_path(of, lv) == ("this", cur_item[1]) for lv, _ in written_lvalues(of)):
                    continue
            key = "%s#free-of-%s" % (of.qn, fmt_region(cur_item))
            if key in seen:
                continue
            seen.add(key)
            rep.viol(key, "%s:%s" % (of.file, oline),
                     "%s frees %s (%s) and does not replace it: calling %s again, or any operation that uses it, touches freed memory" % (
                         op.qn, fmt_region(r), " -> ".join(chain), op.name), of.qn)


@rule("R-DANGLING", 35, "no loader deletes a field of the object it returns without replacing it when a method of that object uses the field")
def r_dangling(db, rep):
    E = get_effects(db)
    memo = {}
    pairs = [(w, r) for w, r in rules_serial.find_pairs(db) if not rules_serial.is_dispatcher(db, r)]
    cone = rules_serial.mirror_cone(db, pairs)
    done = set()
    for w, ld in pairs:
        wkey = w.rec or rules_serial.nested_key(db, w.qn)
        if wkey not in cone or ld.id in done or not ld.rec:
            continue
        done.add(ld.id)
        rec = ld.rec
        rep.visit(ld)
        rep.inst(ld.loc, "%s: deletes of fields of the created object examined" % ld.qn)
        rep.ob()
        fam = [rec] + db.all_bases(rec)
        for n in ld.nodes():
            if n["k"] != "CXXDeleteExpr":
                continue
            p = access_path(ld, n["sub"])
            if p is None or not ((len(p) == 3 and p[0] == "local") or (len(p) == 2 and p[0] == "this")):
                continue
            fld = p[-1]
            if db.field(rec, fld) is None:
                continue
            rep.ob()
            cfg = ld.cfg
            pos = cfg.position(n)
            later = [cfg.position(wr) for lv, wr in written_lvalues(ld) if access_path(ld, lv) == p]
            later = [x for x in later if x is not None]
            if not cfg.path_exists(pos, [cfg.exit], avoid=later):
                continue
            us = []
            for c in fam:
                for op in db.methods_of(c):
                    if op.is_ctor or op.static or op.id == ld.id:
                        continue
                    if fld in reads_of(db, E, op, memo):
                        us.append(op)
            if us:
                rep.viol("%s#dangling-%s" % (ld.qn, fld), ld.nloc(n),
                         "%s returns an object whose field %s points to freed memory; %s use(s) it" % (
                             ld.qn, fld, ", ".join(sorted(set(u.qn for u in us))[:6])), ld.qn)
            # the destructor of the returned object frees the same field again
            rep.ob()
            for c in fam:
                for d in db.methods_of(c):
                    if not d.is_dtor or not d.body:
                        continue
                    for x in d.nodes():
                        if x["k"] == "CXXDeleteExpr" and access_path(d, x["sub"]) == ("this", fld):
                            rep.viol("%s#double-free-%s" % (ld.qn, fld), d.nloc(x),
                                     "%s deletes field %s of the object it returns and leaves the pointer in place; %s deletes it again: destroying a "
                                     "loaded object frees the same block twice" % (ld.qn, fld, d.qn), d.qn)


@rule("R-CONSTPURE", 30, "the bundled succinct structures' query methods (access / rank* / select* / getSize ... declared const) write "
                         "nothing reachable from the object and no global: answers cannot depend on earlier or concurrent queries")
def r_constpure(db, rep):
    E = get_effects(db)
    pairs = [(w, r) for w, r in rules_serial.find_pairs(db) if not rules_serial.is_dispatcher(db, r)]
    cone = rules_serial.mirror_cone(db, pairs)
    seen = set()
    for rec in sorted(cone):
        if rec not in db.records or not rec.startswith("cds_"):
            continue
        for m in db.methods_of(rec):
            if not m.raw.get("const") or m.is_ctor or m.is_dtor or m.name in ("save",):
                continue
            if not any(m.name.startswith(x) for x in ("access", "rank", "select", "getSize", "getLength", "count", "is_set", "done", "map", "unmap")):
                continue
            rep.visit(m)
            S = E.sum[m.id]
            rep.inst(m.loc, "%s const: MOD=%d" % (m.qn, len(S.mod)))
            bad = []
            for (r, l) in sorted(S.mod, key=str):
                rep.ob()
                if r[0] in ("this", "global") and not allowed_global(r):
                    bad.append(("mod", (r, l)))
            for key, loc, msg, fn in report_effects(db, E, rep, m, bad, "const", "const query method is not pure"):
                if key not in seen:
                    seen.add(key)
                    rep.viol(key, loc, msg, fn)
