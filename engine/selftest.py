"""Checker self-test (thorough tier): every entry of the catalogue is a variant of /repo's *current* tree with one instance
broken; the rule named must report it, naming that construct. Variants are made in a scratch copy outside /repo and /verif
and removed immediately. Three sources:
  * revert : the reverse of one of the `fix:` commits (patch kept under /verif/selftest) - re-introduces a genuine defect;
  * seeded : a mutation written by an independent sub-agent (/verif/seeded/<id>/patch.diff);
  * subst  : a one-place textual substitution written for a rule that no other entry exercises.
A variant whose anchor text is no longer in the tree is skipped (reported), not failed: the tree may legitimately change.
A variant that applies but is not reported by its rule is a self-test failure (exit 2: the checker is broken).
"""
import json
import os
import shutil
import subprocess
import tempfile

import core
import rulebase
from factsdb import AnalysisBroken, REPO, VERIF

ST = os.path.join(VERIF, "selftest")

# (id, kind, source, [(rule, substring of the violation key)])
CATALOG = [
    ("rev-1935db3", "revert", "fix_1935db3.diff", [("R-ITERSTATE", "IteratorDictStringHRPDACBlocks/3#scanneable-unset")]),
    ("rev-69c5c2a", "revert", "fix_69c5c2a.diff", [("R-CHUNKINIT", "StringDictionaryHASHHF::extractTable#input-budget-maxlength")]),
    ("rev-89c3c75", "revert", "fix_89c3c75.diff", [("R-CURSORFILL", "StringDictionaryHASHHF::StringDictionaryHASHHF#bytesStrings-advanced-without-store")]),
    ("rev-4286cb7", "revert", "fix_4286cb7.diff", [("R-VARFIELD", "BitSequenceRRR::build#set_var_field-fin-32bit"), ("R-VARFIELD", "BitSequenceRRR::rank1#get_var_field-fin-32bit")]),
    ("rev-a39b29e", "revert", "fix_a39b29e.diff", [("R-COPYBOUND", "IteratorDictStringXBW::IteratorDictStringXBW#copy-into-str")]),
    ("rev-d7ae549", "revert", "fix_d7ae549.diff", [("R-DELETECAST", "XBW::XBW#delete-BitSequenceBuilder-as-SequenceBuilderWaveletTree")]),
    ("rev-10af8a5", "revert", "fix_10af8a5.diff", [("R-CURSORFILL", "StringDictionaryHTFC::StringDictionaryHTFC#bytesStrings-advanced-without-store"), ("R-CURSORFILL", "StringDictionaryHHTFC::StringDictionaryHHTFC#bytesStrings-advanced-without-store")]),
    ("rev-7838953", "revert", "fix_7838953.diff", [("R-STALEVAR", "SSA::locate#stale-local")]),
    ("rev-e3ad698", "revert", "fix_e3ad698.diff", [("R-TAGS", "missing:StringDictionaryHASHRPDACBlocks")]),
    ("rev-37096d0", "revert", "fix_37096d0.diff", [("R-EXTENT", "DAC_BVLS::levelsIndex")]),
    ("rev-3630645", "revert", "fix_3630645.diff", [("R-DISPATCH", "missing:cds_static::BitSequence375")]),
    ("rev-17692cb", "revert", "fix_17692cb.diff", [("R-KILLUSE", "DecodingTree::save#free-of"), ("R-DANGLING", "DecodingTree::load#dangling-partree")]),
    ("rev-52cb7ae", "revert", "fix_52cb7ae.diff", [("R-PATTERN", "extractStringAndCompareRP")]),
    ("rev-17d4d6c", "revert", "fix_17d4d6c.diff", [("R-TAGSELF", "StringDictionaryHASHHF::load#type")]),
    ("rev-d4096e8", "revert", "fix_d4096e8.diff", [("R-CV", "WorkerQueue::add_task#update-of"), ("R-CV", "Worker::set_stopped#update-of")]),
    ("rev-0dd9154", "revert", "fix_0dd9154.diff", [("R-ALPHAGUARD", "SSA::locateP#occ-unchecked"), ("R-ALPHAGUARD", "SSA::locate#occ-unchecked")]),
    ("rev-49726de", "revert", "fix_49726de.diff", [("R-NOTFOUND", "StringDictionaryPFC::searchPrefix")]),
    ("rev-79bed29", "revert", "fix_79bed29.diff", [("R-WINDOW", "StringDictionaryFMINDEX::extractPrefix")]),
    ("rev-dc1890a", "revert", "fix_dc1890a.diff", [("R-STATE", "[built]:DecodingTable::Entry"), ("R-INITCOVER", "ventry-partly")]),
    ("rev-242aa68", "revert", "fix_242aa68.diff", [("R-STATE", "StringDictionaryHTFC[built]:StatCoder::table")]),
    ("rev-b2aab8a", "revert", "fix_b2aab8a.diff", [("R-STATE", "StringDictionaryHASHHF[built]:Hash::data"), ("R-STATE", "StringDictionaryHASHUFFDAC[built]:HashDAC::data")]),
    ("rev-856d1e3", "revert", "fix_856d1e3.diff", [("R-CLAMP", "StringDictionaryPFC::StringDictionaryPFC#raw-bucketsize"), ("R-CLAMP", "StringDictionaryRPHTFC")]),
    ("rev-f85ef17", "revert", "fix_f85ef17.diff", [("R-SHIFT", "LogSequence::set_field#shift")]),
    ("rev-12f5413", "revert", "fix_12f5413.diff", [("R-GROW", "StringDictionaryRPFC::StringDictionaryRPFC#if-guard:rpdict")]),
    ("rev-f011118", "revert", "fix_f011118.diff", [("R-SLACK", "StringDictionaryPFC::StringDictionaryPFC#slack")]),
    # seeded (sub-agent) mutations that the checks detect
    ("seed-C06_m2", "seeded", "C06_m2", [("R-MIRROR", "StringDictionaryXBW::save")]),
    ("seed-C06_m1", "seeded", "C06_m1", [("R-SELECTRANGE", "HashBdh::load")]),
    ("seed-C08_m1", "seeded", "C08_m1", [("R-ZEROFILL", "DAC_VLS::DAC_VLS#levels")]),
    ("seed-C08_m2", "seeded", "C08_m2", [("R-TAGSELF", "StringDictionaryHASHRPDACBlocks")]),
    ("seed-C08_m3", "seeded", "C08_m3", [("R-SAVEPURE", "LogSequence::save")]),
    ("seed-C10_m2", "seeded", "C10_m2", [("R-DRAIN", "exit-with-queued-tasks")]),
    ("seed-C10_m3", "seeded", "C10_m3", [("R-DRAIN", "exit-while-live")]),
    ("seed-C11_m1", "seeded", "C11_m1", [("R-LOCKSET", "race:WorkerQueue::q")]),
    ("seed-C11_m2", "seeded", "C11_m2", [("R-LOCKSET", "race:StringDictionaryHASHRPDACBlocks::parts")]),
    ("seed-C11_m3", "seeded", "C11_m3", [("R-WORKERPURE", "nearest_prime")]),
    ("seed-C14_m1", "seeded", "C14_m1", [("R-PATTERN", "StringDictionaryRPDAC::locatePrefix")]),
    ("seed-C14_m2", "seeded", "C14_m2", [("R-QUERYPURE", "StringDictionaryHASHRPDACBlocks::extract")]),
    ("seed-C14_m3", "seeded", "C14_m3", [("R-QUERYPURE", "StringDictionaryHASHRPDAC::extractTable")]),
    ("seed-C16_m1", "seeded", "C16_m1", [("R-STUB", "StringDictionaryFMINDEX::extractSubstr#guard")]),
    ("seed-C16_m2", "seeded", "C16_m2", [("R-STUB", "StringDictionaryHASHRPDACBlocks::locateRank")]),
    ("seed-C16_m3", "seeded", "C16_m3", [("R-TAGS", "StringDictionaryRPDAC::load#tagcheck")]),
    ("seed-C01_m1", "seeded", "C01_m1", [("R-SLOT", "task-mutates-parts")]),
    ("seed-C01_m2", "seeded", "C01_m2", [("R-PROBE", "HashBdh::search#probe")]),
    ("seed-C01_m3", "seeded", "C01_m3", [("R-BYTEORDER", "signed-byte")]),
    ("seed-C02_m1", "seeded", "C02_m1", [("R-ALPHAGUARD", "SSA::locate_id#occ-unchecked-in-loop")]),
    ("seed-C02_m2", "seeded", "C02_m2", [("R-SCANEXIT", "StringDictionaryPFC::locate#scan-without-early-exit")]),
    ("seed-C02_m3", "seeded", "C02_m3", [("R-IDGUARD", "StringDictionaryHASHRPDAC::extract#unguarded")]),
    ("seed-C03_m1", "seeded", "C03_m1", [("R-BYTEORDER", "difference-narrowed")]),
    ("seed-C03_m2", "seeded", "C03_m2", [("R-CMPSIGN", "RePair::extractStringAndCompareDAC#mixed-orientation")]),
    ("seed-C03_m3", "seeded", "C03_m3", [("R-CLAMP", "raw-bucketsize-used")]),
    ("seed-C04_m1", "seeded", "C04_m1", [("R-BISECT", "StringDictionaryRPDAC::locatePrefix#right-upper")]),
    ("seed-C04_m2", "seeded", "C04_m2", [("R-BUCKET", "last-bucket-var")]),
    ("seed-C04_m3", "seeded", "C04_m3", [("R-QUERYPURE", "anchoredQuery#write-to-global")]),
    ("seed-C05_m1", "seeded", "C05_m1", [("R-SAMPLECOUNT", "sample-count-conversion-loop")]),
    ("seed-C05_m2", "seeded", "C05_m2", [("R-DUPSKIP", "IteratorDictStringXBWDuplicates::next#no-skip-loop")]),
    ("seed-C07_m1", "seeded", "C07_m1", [("R-SLACK", "StringDictionaryPFC::StringDictionaryPFC#slack")]),
    ("seed-C07_m2", "seeded", "C07_m2", [("R-EXTENT", "DAC_VLS::levels")]),
    ("seed-C07_m3", "seeded", "C07_m3", [("R-LOCKSET", "")]),
    ("seed-C09_m2", "seeded", "C09_m2", [("R-WORKERPURE", "nearest_prime")]),
    ("seed-C09_m3", "seeded", "C09_m3", [("R-SLOT", "")]),
    ("seed-C10_m1", "seeded", "C10_m1", [("R-CV", "WorkerQueue::add_task#update-of")]),
    ("seed-C12_m1", "seeded", "C12_m1", [("R-SLOT", "slot-index-not-captured")]),
    ("seed-C12_m3", "seeded", "C12_m3", [("R-BUCKET", "StringDictionaryPFC::locate#last-bucket")]),
    ("seed-C13_m1", "seeded", "C13_m1", [("R-DUPSKIP", "IteratorDictIDDuplicates::next#skip-condition")]),
    ("seed-C13_m2", "seeded", "C13_m2", [("R-FMMAP", "iterator-last")]),
    ("seed-C15_m1", "seeded", "C15_m1", [("R-METADATA", "StringDictionaryPFC::StringDictionaryPFC#maxlength")]),
    ("seed-C15_m2", "seeded", "C15_m2", [("R-MIRROR", "StringDictionaryHTFC::save<->StringDictionaryHTFC::load")]),
    ("seed-C17_m1", "seeded", "C17_m1", [("R-VBYTE", "VByte::decode#loop-bound")]),
    ("seed-C17_m2", "seeded", "C17_m2", [("R-SETFIELD", "LogSequence::set_field#store")]),
    ("seed-C19_m2", "seeded", "C19_m2", [("R-MIRROR", "BitSequenceRG")]),
    ("seed-C19_m3", "seeded", "C19_m3", [("R-CONSTPURE", "wt_coder_huff")]),
    ("seed-C20_m1", "seeded", "C20_m1", [("R-RPWIDTH", "RePair::getBits#width")]),
    ("seed-C20_m2", "seeded", "C20_m2", [("R-BACKPTR", "HashRP::insertHash#table-without-kpos")]),
    ("seed-C20_m3", "seeded", "C20_m3", [("R-NARROW", "RePair::save#narrow-terminals")]),
    # second round of sub-agent mutations
    ("seed-C02_m5", "seeded", "C02_m5", [("R-BYTEINDEX", "SSA::alphabet#extent-in-SSA::load")]),
    ("seed-C02_m6", "seeded", "C02_m6", [("R-SENTINEL", "HashBdh::search#narrow-sentinel")]),
    ("seed-C04_m4", "seeded", "C04_m4", [("R-EXTENT-FM", "SSA::occ")]),
    ("seed-C05_m4", "seeded", "C05_m4", [("R-SAMPLECOUNT", "sample-count")]),
    ("seed-C05_m5", "seeded", "C05_m5", [("R-STALESIZE", "stale-scanneable")]),
    ("seed-C06_m4", "seeded", "C06_m4", [("R-MIRROR", "SSA::save<->SSA::load")]),
    ("seed-C06_m6", "seeded", "C06_m6", [("R-MIRROR", "StringDictionaryXBW::save<->StringDictionaryXBW::load")]),
    ("seed-C07_m4", "seeded", "C07_m4", [("R-EXTENT", "LogSequence::array")]),
    ("seed-C07_m6", "seeded", "C07_m6", [("R-DANGLING", "double-free-hash")]),
    ("seed-C08_m4", "seeded", "C08_m4", [("R-TAGSELF", "type-unset")]),
    ("seed-C08_m5", "seeded", "C08_m5", [("R-ZEROFILL", "consumed-beyond-fill")]),
    ("seed-C08_m6", "seeded", "C08_m6", [("R-SAVEPURE", "StringDictionaryHTFC::save#write-to-this.textStrings")]),
    ("seed-C09_m5", "seeded", "C09_m5", [("R-PARAMFLOW", "thread_count-flows-into")]),
    ("seed-C09_m6", "seeded", "C09_m6", [("R-INITEXTENT", "data-tail-uninitialised")]),
    ("seed-C10_m4", "seeded", "C10_m4", [("R-CV", "WorkerQueue::add_task#update-of")]),
    ("seed-C10_m5", "seeded", "C10_m5", [("R-CV", "Worker::set_stopped#update-of")]),
    ("seed-C10_m6", "seeded", "C10_m6", [("R-DRAIN", "exit-with-queued-tasks:the-loop-condition")]),
    ("seed-C11_m4", "seeded", "C11_m4", [("R-LOCKSET", "race:WorkerQueue::q")]),
    ("seed-C11_m6", "seeded", "C11_m6", [("R-SLOT", "task-writes-maxlength"), ("R-LOCKSET", "race:StringDictionary::maxlength")]),
    ("seed-C13_m4", "seeded", "C13_m4", [("R-IDRANGE", "IteratorDictIDContiguous#range")]),
    ("seed-C13_m5", "seeded", "C13_m5", [("R-CHUNKINIT", "chunk-extracted")]),
    ("seed-C14_m4", "seeded", "C14_m4", [("R-REFCOUNT", "no-acquire:E")]),
    ("seed-C14_m5", "seeded", "C14_m5", [("R-PATTERN", "StringDictionaryHASHRPF::locate#param0-not-restored")]),
    ("seed-C14_m6", "seeded", "C14_m6", [("R-QUERYPURE", "write-to-this.last_part")]),
    ("seed-C15_m5", "seeded", "C15_m5", [("R-MIRROR", "StringDictionaryHASHHF::save<->StringDictionaryHASHHF::load")]),
    ("seed-C15_m6", "seeded", "C15_m6", [("R-METADATA", "StringDictionaryPFC::StringDictionaryPFC#maxlength")]),
    ("seed-C16_m4", "seeded", "C16_m4", [("R-TAGS", "StringDictionaryXBW::load#")]),
    ("seed-C16_m5", "seeded", "C16_m5", [("R-TAGS", "StringDictionaryHASHHF::load#tagcheck")]),
    ("seed-C16_m6", "seeded", "C16_m6", [("R-TAGS", "StringDictionaryFMINDEX::load#tagcheck")]),
    ("seed-C17_m4", "seeded", "C17_m4", [("R-MIRROR", "BitSequenceRG::save<->cds_static::BitSequenceRG::load")]),
    ("seed-C17_m5", "seeded", "C17_m5", [("R-SETFIELD", "LogSequence::set_field#store")]),
    ("seed-C17_m6", "seeded", "C17_m6", [("R-SHIFT", "cds_utils::get_field#shift")]),
    ("seed-C19_m4", "seeded", "C19_m4", [("R-REFCOUNT", "release-result-dropped:E")]),
    ("seed-C19_m5", "seeded", "C19_m5", [("R-MIRROR", "BitSequenceRG")]),
    ("seed-C20_m6", "seeded", "C20_m6", [("R-MIRROR", "LogSequence::save<->LogSequence::LogSequence")]),
    # third round (single-token / boundary mutations)
    ("seed-C01_m9", "seeded", "C01_m9", [("R-SCANLEN", "SSA::build_index#scan-length")]),
    ("seed-C02_m7", "seeded", "C02_m7", [("R-SENTINEL", "HashDAC::search#narrow-sentinel")]),
    ("seed-C03_m8", "seeded", "C03_m8", [("R-VBYTE", "VByte::encode<->VByte::decode")]),
    ("seed-C04_m7", "seeded", "C04_m7", [("R-BYTEORDER", "expandRuleAndComparePrefixDAC#signed-byte")]),
    ("seed-C04_m8", "seeded", "C04_m8", [("R-BUCKET", "StringDictionaryPFC::locatePrefix#last-bucket")]),
    ("seed-C04_m9", "seeded", "C04_m9", [("R-ALPHAGUARD", "SSA::locateP#occ-unchecked")]),
    ("seed-C05_m9", "seeded", "C05_m9", [("R-SAMPLECOUNT", "sample-count-conversion-loop")]),
    ("seed-C06_m8", "seeded", "C06_m8", [("R-SELECTRANGE", "HashBdh::load#select-range")]),
    ("seed-C07_m9", "seeded", "C07_m9", [("R-ZEROFILL", "bit-outside-allocation")]),
    ("seed-C08_m8", "seeded", "C08_m8", [("R-ZEROFILL", "levels-fill-short-of-saved-extent")]),
    ("seed-C08_m9", "seeded", "C08_m9", [("R-STATE", "Hash::n")]),
    ("seed-C09_m7", "seeded", "C09_m7", [("R-INITEXTENT", "data-tail-uninitialised")]),
    ("seed-C09_m9", "seeded", "C09_m9", [("R-LOCKSET", "race:StringDictionaryHASHRPDACBlocks::parts")]),
    ("seed-C10_m7", "seeded", "C10_m7", [("R-DRAIN", "exit-with-queued-tasks:the-break")]),
    ("seed-C10_m8", "seeded", "C10_m8", [("R-CV", "WorkerQueue::add_task#update-of")]),
    ("seed-C10_m9", "seeded", "C10_m9", [("R-CV", "Worker::set_stopped#update-of")]),
    ("seed-C11_m8", "seeded", "C11_m8", [("R-LOCKSET", "race:")]),
    ("seed-C11_m9", "seeded", "C11_m9", [("R-WORKERPURE", "BitSequenceRRR::E")]),
    ("seed-C12_m8", "seeded", "C12_m8", [("R-PROBE", "Hashdh::search#probe")]),
    ("seed-C12_m9", "seeded", "C12_m9", [("R-BISECT", "locateBoundaryBuckets#right-guard")]),
    ("seed-C13_m8", "seeded", "C13_m8", [("R-CHUNKINIT", "header-bound-maxlength")]),
    ("seed-C13_m9", "seeded", "C13_m9", [("R-DEDUP", "SSA::locate#occs-extent")]),
    ("seed-C14_m7", "seeded", "C14_m7", [("R-PATTERN", "extractStringAndCompareRP#param1-not-restored"), ("R-CMPEND", "extractStringAndCompareRP")]),
    ("seed-C14_m9", "seeded", "C14_m9", [("R-QUERYPURE", "static-local-cmask")]),
    ("seed-C15_m7", "seeded", "C15_m7", [("R-METADATA", "StringDictionary::maxLength#accessor")]),
    ("seed-C15_m9", "seeded", "C15_m9", [("R-NARROW", "StringDictionaryRPDAC::save#narrow-maxlength")]),
    ("seed-C16_m7", "seeded", "C16_m7", [("R-TAGS", "tag-narrowed")]),
    ("seed-C16_m8", "seeded", "C16_m8", [("R-STUB", "StringDictionaryFMINDEX::extractSubstr#guard")]),
    ("seed-C17_m8", "seeded", "C17_m8", [("R-SHIFT", "LogSequence::set_field#shift")]),
    ("seed-C17_m9", "seeded", "C17_m9", [("R-COUNTERWIDTH", "narrow-counter-maxseq")]),
    ("seed-C20_m7", "seeded", "C20_m7", [("R-RPZERO", "first-extract-without-purge")]),
    ("seed-C03_m5", "seeded", "C03_m5", [("R-RESAVE-SCALAR", "StringDictionaryRPFC::load#buckets-overwritten")]),
    ("seed-C04_m5", "seeded", "C04_m5", [("R-CMPEND", "extractPrefixAndCompareDAC#match-without-end-of-pattern")]),
    # behaviour-preserving refactorings (benign/): the named rules must stay silent on them (each once raised a false alarm)
    ("benign-A_r1", "benign", "A_r1.diff", [("R-EXTENT", None)]),
    ("benign-A_r4", "benign", "A_r4.diff", [("R-TAGS", None)]),
    ("benign-A_r5", "benign", "A_r5.diff", [("R-SAMPLECOUNT", None)]),
    ("benign-A_r9", "benign", "A_r9.diff", [("R-TAGS", None)]),
    ("benign-B_r5", "benign", "B_r5.diff", [("R-PROBE", None)]),
    ("benign-B_r7", "benign", "B_r7.diff", [("R-CLAMP", None)]),
    ("benign-C_r7", "benign", "C_r7.diff", [("R-BACKPTR", None)]),
    ("benign-D_r4", "benign", "D_r4.diff", [("R-MIRROR", None)]),
    ("benign-D_r5", "benign", "D_r5.diff", [("R-RESAVE", None)]),
    ("benign-E_r3", "benign", "E_r3.diff", [("R-PROBE", None)]),
    ("benign-E_r4", "benign", "E_r4.diff", [("R-RESAVE", None), ("R-SELECTRANGE", None)]),
    ("benign-E_r8", "benign", "E_r8.diff", [("R-ZEROFILL", None)]),
    ("benign-E_r10", "benign", "E_r10.diff", [("R-PROBE", None), ("R-ACCEPT", None)]),
    ("benign-F_r4", "benign", "F_r4.diff", [("R-FMMAP", None)]),
    ("benign-F_r7", "benign", "F_r7.diff", [("R-ZEROFILL", None)]),
    ("benign-G_r10", "benign", "G_r10.diff", [("R-RPGAP", None)]),
    ("benign-G_r11", "benign", "G_r11.diff", [("R-SCANSIGN", None)]),
    ("benign-H_r1", "benign", "H_r1.diff", [("R-CV", None)]),
    ("benign-H_r2", "benign", "H_r2.diff", [("R-ONCE", None)]),
    ("benign-H_r3", "benign", "H_r3.diff", [("R-DRAIN", None)]),
    ("benign-H_r9", "benign", "H_r9.diff", [("R-SLOT", None), ("R-LOCKSET", None), ("R-WORKERPURE", None)]),
    ("benign-H_r10", "benign", "H_r10.diff", [("R-PARAMFLOW", None)]),
    ("benign-H_r11", "benign", "H_r11.diff", [("R-CV", None), ("R-JOIN", None), ("R-LOCKSET", None)]),
    ("benign-B_r6", "benign", "B_r6.diff", [("R-CMPEND", None), ("R-CMPSIGN", None)]),
    ("benign-I_r6", "benign", "I_r6.diff", [("R-BISECT", None)]),
    ("benign-I_r7", "benign", "I_r7.diff", [("R-BSEARCH", None)]),
    ("benign-J_r5", "benign", "J_r5.diff", [("R-REFCOUNT", None)]),
    ("benign-J_r1", "benign", "J_r1.diff", [("R-INITEXTENT", None)]),
    ("benign-K_r1", "benign", "K_r1.diff", [("R-CHUNKINIT", None)]),
    ("benign-L_r4", "benign", "L_r4.diff", [("R-BACKPTR", None)]),
    ("benign-L_r9", "benign", "L_r9.diff", [("R-RPWIDTH", None)]),
    ("benign-L_r10", "benign", "L_r10.diff", [("R-TAGS", None), ("R-RPWIDTH", None)]),
    ("benign-M_r5", "benign", "M_r5.diff", [("R-ACCEPT", None), ("R-SENTINEL", None)]),
    ("benign-M_r7", "benign", "M_r7.diff", [("R-ACCEPT", None), ("R-SENTINEL", None)]),
    ("benign-M_r8", "benign", "M_r8.diff", [("R-TAGS", None), ("R-MIRROR", None)]),
    ("benign-M_r3", "benign", "M_r3.diff", [("R-STATE", None)]),
    ("benign-N_r3", "benign", "N_r3.diff", [("R-SCANLEN", None)]),
    ("benign-O_r12", "benign", "O_r12.diff", [("R-COUNTERWIDTH", None)]),
    # one-place substitutions for rules nothing above exercises: (file, old, new)
    # repaired rewrites / correct rewrites that once raised an alarm: must stay silent
    ("benign-R4_C04_m12", "benign", "R4_C04_m12.diff", [("R-WINDOW", None)]),
    ("benign-R4_C13_m11", "benign", "R4_C13_m11.diff", [("R-WINDOW", None)]),
    ("benign-R4_C06_m12", "benign", "R4_C06_m12.diff", [("R-PROBE", None)]),
    ("benign-R4_C02_m12", "benign", "R4_C02_m12.diff", [("R-IDGUARD", None), ("R-BUCKET", None)]),
    ("benign-R4_C08_m12", "benign", "R4_C08_m12.diff", [("R-MIRROR", None), ("R-DERIVED", None)]),
    ("benign-R4_C13_m12", "benign", "R4_C13_m12.diff", [("R-DUPSKIP", None), ("R-STALESIZE", None)]),
    ("benign-R4_C01_m12", "benign", "R4_C01_m12.diff", [("R-JOIN", None), ("R-LOCKSET", None), ("R-CV", None)]),
    ("benign-R4_C15_m10", "benign", "R4_C15_m10.diff", [("R-METADATA", None), ("R-SLOT", None), ("R-CV", None)]),
    ("benign-R4_C15_m11", "benign", "R4_C15_m11.diff", [("R-METADATA", None)]),
    ("benign-R4_C15_m12", "benign", "R4_C15_m12.diff", [("R-METADATA", None)]),
    ("benign-R4_C16_m10", "benign", "R4_C16_m10.diff", [("R-STUB", None), ("R-DEDUP", None)]),
    ("benign-R4_C16_m11", "benign", "R4_C16_m11.diff", [("R-TAGS", None)]),
    ("benign-R4_C10_m10", "benign", "R4_C10_m10.diff", [("R-DRAIN", None), ("R-ONCE", None)]),
    ("benign-R4_C11_m10", "benign", "R4_C11_m10.diff", [("R-DRAIN", None), ("R-ONCE", None)]),
    ("benign-R4_C11_m12", "benign", "R4_C11_m12.diff", [("R-WORKERPURE", None)]),
    ("benign-R4_C12_m11", "benign", "R4_C12_m11.diff", [("R-SLOT", None), ("R-CV", None)]),
    ("benign-R4_C09_m10", "benign", "R4_C09_m10.diff", [("R-JOIN", None)]),
    ("benign-R4_C10_m12", "benign", "R4_C10_m12.diff", [("R-JOIN", None)]),
    ("benign-R4_C05_m10", "benign", "R4_C05_m10.diff", [("R-CUMSUM", None)]),
    ("benign-R4_C20_m10", "benign", "R4_C20_m10.diff", [("R-STALEVAR", None), ("R-FIXEDBUF", None)]),
    ("benign-R4_C17_m10", "benign", "R4_C17_m10.diff", [("R-VBYTE", None)]),
    ("benign-J_r8", "benign", "J_r8.diff", [("R-EXTENT", None)]),
    ("benign-PP_r4", "benign", "PP_r4.diff", [("R-QUERYPURE", None)]),
    ("benign-PU_r2", "benign", "PU_r2.diff", [("R-SELECTRANGE", None)]),
    ("benign-R4_C09_m11", "benign", "R4_C09_m11.diff", [("R-ONCE", None)]),
    ("benign-R4_C20_m12", "benign", "R4_C20_m12.diff", [("R-RPGAP", None)]),
    ("benign-R4_C04_m10", "benign", "R4_C04_m10.diff", [("R-BISECT", None)]),
    ("benign-R4_C03_m10", "benign", "R4_C03_m10.diff", [("R-DERIVED", None)]),
    ("benign-R4_C17_m12", "benign", "R4_C17_m12.diff", [("R-DERIVED", None), ("R-MIRROR", None)]),
    # round 4 (rewrites of 10-40 lines)
    ("seed-C01_m10", "seeded", "C01_m10", [("R-PROBE", 'Hash::insert#probe-0')]),
    ("seed-C01_m12", "seeded", "C01_m12", [("R-LOCKSET", 'race:StringDictionaryHASHRPDACBlocks::parts')]),
    ("seed-C02_m10", "seeded", "C02_m10", [("R-PREDINDEX", 'binary_search_before_index#predecessor-of-begin')]),
    ("seed-C02_m12", "seeded", "C02_m12", [("R-IDGUARD", 'StringDictionaryPFC::extract#unguarded-upper')]),
    ("seed-C03_m10", "seeded", "C03_m10", [("R-DERIVED", 'StringDictionaryPFC:StringDictionaryPFC::lastBuc')]),
    ("seed-C04_m11", "seeded", "C04_m11", [("R-ALPHAGUARD", 'SSA::backward_search#occ-unchecked')]),
    ("seed-C04_m12", "seeded", "C04_m12", [("R-WINDOW", 'StringDictionaryRPDAC::extractPrefix#empty-windo')]),
    ("seed-C05_m10", "seeded", "C05_m10", [("R-CUMSUM", 'SSA::build_index#occ-cumsum-short')]),
    ("seed-C05_m12", "seeded", "C05_m12", [("R-QUERYPURE", 'StringDictionaryFMINDEX::substrOccurrences#write')]),
    ("seed-C06_m11", "seeded", "C06_m11", [("R-MIRROR", 'StringDictionaryXBW::save<->StringDictionaryXBW:')]),
    ("seed-C06_m12", "seeded", "C06_m12", [("R-PROBE", 'HashBdh::search#probe-0')]),
    ("seed-C07_m10", "seeded", "C07_m10", [("R-SLACK", 'StringDictionaryPFC::StringDictionaryPFC#slack')]),
    ("seed-C07_m12", "seeded", "C07_m12", [("R-PREDINDEX", 'binary_search_before_index#predecessor-of-begin')]),
    ("seed-C08_m10", "seeded", "C08_m10", [("R-EXTENT", 'SSA::suff_sample#ctor0')]),
    ("seed-C08_m11", "seeded", "C08_m11", [("R-SAVEPURE", 'LogSequence::save#write-to-this->array')]),
    ("seed-C08_m12", "seeded", "C08_m12", [("R-DERIVED", 'StringDictionaryHASHRPDACBlocks:StringDictionary')]),
    ("seed-C09_m10", "seeded", "C09_m10", [("R-LOCKSET", 'race:StringDictionaryHASHRPDACBlocks::parts')]),
    ("seed-C09_m12", "seeded", "C09_m12", [("R-WORKERPURE", 'HashRP::createHash#writes-global-spare_table')]),
    ("seed-C11_m10", "seeded", "C11_m10", [("R-LOCKSET", 'race:WorkerQueue::q')]),
    ("seed-C11_m11", "seeded", "C11_m11", [("R-LOCKSET", 'race:StringDictionaryHASHRPDACBlocks::parts')]),
    ("seed-C11_m12", "seeded", "C11_m12", [("R-WORKERPURE", 'nearest_prime#writes-global-last_n')]),
    ("seed-C12_m11", "seeded", "C12_m11", [("R-SLOT", 'StringDictionaryHASHRPDACBlocks::StringDictionar')]),
    ("seed-C13_m11", "seeded", "C13_m11", [("R-WINDOW", 'StringDictionaryRPDAC::extractPrefix#empty-windo')]),
    ("seed-C13_m12", "seeded", "C13_m12", [("R-STALESIZE", 'IteratorDictIDXBWDuplicates::IteratorDictIDXBWDu')]),
    ("seed-C14_m10", "seeded", "C14_m10", [("R-PATTERN", 'RePair::extractStringAndCompareRP#param1-not-res')]),
    ("seed-C14_m11", "seeded", "C14_m11", [("R-QUERYPURE", 'StringDictionaryPFC::locateBucket#write-to-this.')]),
    ("seed-C14_m12", "seeded", "C14_m12", [("R-QUERYPURE", 'SSA::locate#write-to-this.occs_buf')]),
    ("seed-C16_m10", "seeded", "C16_m10", [("R-STUB", 'StringDictionaryFMINDEX::locateSubstr#guard')]),
    ("seed-C16_m11", "seeded", "C16_m11", [("R-TAGS", 'StringDictionaryHASHRPF::load#early-object-rp')]),
    ("seed-C17_m12", "seeded", "C17_m12", [("R-DERIVED", 'StringDictionaryHASHRPDAC:DAC_VLS::levelsWords')]),
    ("seed-C20_m10", "seeded", "C20_m10", [("R-FIXEDBUF", 'RePair::expandRule#local#3-unbounded-index')]),
    ("sub-mirror-width", "subst", ("StringDictionaryPFC.cpp", "dict->buckets = loadValue<uint32_t>(in);", "dict->buckets = loadValue<uint64_t>(in);"),
     [("R-MIRROR", "StringDictionaryPFC::save")]),
    ("sub-resave", "subst", ("StringDictionaryPFC.cpp", "dict->blStrings = new LogSequence(in);",
                             "LogSequence *tmpseq = new LogSequence(in);\n  dict->blStrings = new LogSequence(2, 2);\n  delete tmpseq;"),
     [("R-RESAVE", "StringDictionaryPFC::load#blStrings")]),
    ("sub-idguard", "subst", ("StringDictionaryRPDAC.cpp", "if ((id > 0) && (id <= elements)) {\n    uint *rules;", "if (id <= elements) {\n    uint *rules;"),
     [("R-IDGUARD", "StringDictionaryRPDAC::extract#unguarded")]),
    ("sub-accept", "subst", ("Hash/HashDAC.cpp", "    if (scmp(pos, w, len) == 0)\n      return pos;\n  }", "    if (scmp(pos, w, len) <= 0)\n      return pos;\n  }"),
     [("R-ACCEPT", "HashDAC::search#accept-without-compare")]),
    ("sub-dedup", "subst", ("StringDictionaryFMINDEX.cpp", "    occs[num_occ] = 0;\n\n    return new IteratorDictIDDuplicates(occs, num_occ);",
                            "    return new IteratorDictIDDuplicates(occs, num_occ);"),
     [("R-DEDUP", "StringDictionaryFMINDEX::locateSubstr#no-sentinel")]),
    ("sub-outlen", "subst", ("iterators/IteratorDictStringVector.h", "    *str_length = strlen((char *)(arr[processed - 1]));", "    (void)str_length;"),
     [("R-OUTLEN", "IteratorDictStringVector::next#length-not-reported")]),
    ("sub-metadata", "subst", ("StringDictionaryRPDAC.cpp", "    elements++;", "    if (lenCurrent > 1)\n      elements++;"),
     [("R-METADATA", "StringDictionaryRPDAC::StringDictionaryRPDAC#elements")]),
    ("sub-probe", "subst", ("Hash/HashBBdh.cpp", "    hval = (hval + h2) % tsize;", "    hval = (hval + h2 + 1) % tsize;"),
     [("R-PROBE", "HashBBdh::search")]),
    ("sub-bucket", "subst", ("StringDictionaryHTFC.cpp", "    uint pos = ((id - 1) % bucketsize);", "    uint pos = (id % bucketsize);"),
     [("R-BUCKET", "StringDictionaryHTFC::extract#offset-of-id")]),
    ("sub-fmmap", "subst", ("iterators/IteratorDictStringFMINDEX.h", "      id = processed + 3;", "      id = processed + 2;"),
     [("R-FMMAP", "IteratorDictStringFMINDEX::next")]),
    ("sub-rpzero", "subst", ("RePair/Coder/heap.cpp", "  if ((rec[id].pair.left == 0) || (rec[id].pair.right == 0))\n    return;", "  if (rec[id].pair.left == 0)\n    return;"),
     [("R-RPZERO", "Heap::incFreq#unguarded-increment")]),
    ("sub-rpwidth", "subst", ("StringDictionaryRPDAC.cpp", "bits(rp->rules + rp->terminals), maxseq);", "bits(rp->rules), maxseq);"),
     [("R-RPWIDTH", "StringDictionaryRPDAC::StringDictionaryRPDAC#width")]),
    ("sub-rpgap", "subst", ("StringDictionaryRPDAC.cpp", "        io = -(dict[io] + 1);", "        io = -dict[io];"),
     [("R-RPGAP", "StringDictionaryRPDAC::StringDictionaryRPDAC#gap-decoding")]),
    ("sub-once", "subst", ("parallel/Worker.hpp", "      auto task = queue.pop();\n      ul.unlock();", "      ul.unlock();\n      auto task = queue.pop();"),
     [("R-ONCE", "Worker::run#pop-without-lock")]),
    ("sub-join", "subst", ("StringDictionaryHASHRPDACBlocks.cpp", "  wpool.stop_all_workers();\n  wpool.wait_workers();\n  delete it;", "  delete it;\n  wpool.stop_all_workers();\n  wpool.wait_workers();"),
     [("R-JOIN", "input-freed-early")]),
    ("sub-slot", "subst", ("StringDictionaryHASHRPDACBlocks.cpp", "[this, next_part_index, sub_it, overhead, &m, &parts_done, &cv]", "[this, &next_part_index, sub_it, overhead, &m, &parts_done, &cv]"),
     [("R-SLOT", "slot-index-by-reference")]),
    ("sub-paramflow", "subst", ("StringDictionaryHASHRPDACBlocks.cpp", "if (!it->hasNext() || acc_size > cut_size) {", "if (!it->hasNext() || acc_size > cut_size / (unsigned long)thread_count) {"),
     [("R-PARAMFLOW", "thread_count-flows-into")]),
    ("sub-nondet", "subst", ("Hash/HashDAC.cpp", "  this->tsize = nearest_prime(tsize);", "  this->tsize = nearest_prime(tsize + (size_t)(getTime() * 0));"),
     [("R-NONDET", "HashDAC::HashDAC#calls-getTime")]),
    ("sub-allocform", "subst", ("StringDictionaryPFC.cpp", "  delete[] textStrings;\n  delete blStrings;", "  delete textStrings;\n  delete blStrings;"),
     [("R-ALLOCFORM", "StringDictionaryPFC::textStrings")]),
    ("sub-vbyte", "subst", ("utils/VByte.cpp", "    c >>= 7;", "    c >>= 8;"), [("R-VBYTE", "VByte::encode<->VByte::decode")]),
    ("sub-dupskip", "subst", ("iterators/IteratorDictStringFMINDEXDuplicates.h", "    } while (ids[processed - 1] == ids[processed]);", "    } while (processed < scanneable && ids[processed - 1] == ids[processed]);"),
     [("R-DUPSKIP", "IteratorDictStringFMINDEXDuplicates::next#skip-condition")]),
    ("sub-bsearch", "subst", ("StringDictionaryPFC.cpp", "    if (cmp > 0)\n      right = center - 1;\n    // The string is in any subsequent bucket\n    else if (cmp < 0)\n      left = center + 1;",
                             "    if (cmp < 0)\n      right = center - 1;\n    // The string is in any subsequent bucket\n    else if (cmp > 0)\n      left = center + 1;"),
     [("R-BSEARCH", "StringDictionaryPFC::locateBucket#direction")]),
    ("sub-scansign", "subst", ("StringDictionaryRPFC.cpp", "      if ((cmp > 0) || (i == scanneable))", "      if ((cmp < 0) || (i == scanneable))"),
     [("R-SCANSIGN", "StringDictionaryRPFC::searchPrefix#scan-gives-up")]),
    ("sub-cmparg", "subst", ("StringDictionaryHTFC.cpp", "    cmp = memcmp(header, str, strLen);\n\n    // The string is in any preceding bucket", "    cmp = memcmp(str, header, strLen);\n\n    // The string is in any preceding bucket"),
     [("R-BSEARCH", "StringDictionaryHTFC::locateBucket#direction")]),
    ("sub-bisect-step", "subst", ("StringDictionaryRPDAC.cpp", "      if (cmp == 0)\n        rl = rc;\n      else\n        rr = rc;", "      if (cmp == 0)\n        rl = rc + 1;\n      else\n        rr = rc;"),
     [("R-BISECT", "StringDictionaryRPDAC::locatePrefix#right-step")]),
    ("sub-purerank", "subst", ("StringDictionaryRPDAC.cpp", "uint StringDictionaryRPDAC::locateRank(uint rank) { return rank; }", "uint StringDictionaryRPDAC::locateRank(uint rank) { static uint last = 0; last = rank; return last; }"),
     [("R-QUERYPURE", "StringDictionaryRPDAC::locateRank")]),
    ("sub-lockorder", "subst", ("parallel/Worker.hpp", "  bool stopped() {\n    std::lock_guard lg(mutex_stop);\n    return _stopped;",
                                "  bool stopped() {\n    std::lock_guard lg(mutex_stop);\n    std::lock_guard lg2(shared_mutex);\n    return _stopped;"),
     [("R-LOCKORDER", "")]),
]


KNOWN = {(k["rule"], k["key"]) for k in json.load(open(os.path.join(VERIF, "known_findings.json")))["findings"]}


def make_scratch():
    d = tempfile.mkdtemp(prefix="csd_selftest_")
    subprocess.run(["rsync", "-a", "--exclude", ".git", "--exclude", "_build", REPO + "/", d + "/"], check=True)
    return d


def apply(entry, scratch):
    """Returns None if applied, else the reason it could not be."""
    eid, kind, src, _ = entry
    if kind == "revert":
        r = subprocess.run(["patch", "-R", "-p1", "--no-backup-if-mismatch", "-s", "-f", "-d", scratch, "-i", os.path.join(ST, src)],
                           stdout=subprocess.PIPE, stderr=subprocess.STDOUT)
        return None if r.returncode == 0 else "reverse patch does not apply: " + r.stdout.decode(errors="replace")[-200:]
    if kind == "seeded":
        pf = os.path.join(VERIF, "seeded", src, "patch.diff")
        r = subprocess.run(["patch", "-p1", "--no-backup-if-mismatch", "-s", "-f", "-d", scratch, "-i", pf], stdout=subprocess.PIPE, stderr=subprocess.STDOUT)
        return None if r.returncode == 0 else "patch does not apply: " + r.stdout.decode(errors="replace")[-200:]
    if kind == "benign":
        pf = os.path.join(VERIF, "benign", src)
        r = subprocess.run(["patch", "-p1", "--no-backup-if-mismatch", "-s", "-f", "-d", scratch, "-i", pf], stdout=subprocess.PIPE, stderr=subprocess.STDOUT)
        return None if r.returncode == 0 else "patch does not apply: " + r.stdout.decode(errors="replace")[-200:]
    if kind == "subst":
        fn, old, new = src
        if old is None:
            return "placeholder"
        p = os.path.join(scratch, fn)
        s = open(p, newline="").read()
        crlf = "\r\n" in s
        if crlf:
            old, new = old.replace("\n", "\r\n"), new.replace("\n", "\r\n")
        if s.count(old) != 1:
            return "anchor text occurs %d times in %s" % (s.count(old), fn)
        open(p, "w", newline="").write(s.replace(old, new))
        return None
    return "unknown kind"


def run_for(pid, rules, only=None):
    results = []
    failed = []
    for entry in CATALOG:
        eid, kind, src, expect = entry
        expect_here = [(r, k) for r, k in expect if r in rules]
        if not expect_here or (only and eid not in only):
            continue
        scratch = make_scratch()
        try:
            why = apply(entry, scratch)
            if why is not None:
                results.append({"variant": eid, "status": "skipped", "reason": why})
                continue
            try:
                db = core.DB(repo=scratch)
            except AnalysisBroken as e:
                results.append({"variant": eid, "status": "skipped", "reason": "variant does not parse: %s" % str(e)[:200]})
                continue
            for rn, ks in expect_here:
                if kind == "benign":
                    try:
                        rep = rulebase.run_rule(rn, db)
                        new_v = [v for v in rep.violations if (v.rule, v.key) not in KNOWN]
                        broken = len(rep.instances) < rep.expected_min
                    except AnalysisBroken as e:
                        new_v, broken = [], True
                    ok = not new_v and not broken
                    results.append({"variant": eid, "rule": rn, "expected": "silent", "status": "silent" if ok else "FALSE-ALARM",
                                    "reported_as": new_v[0].key if new_v else ("instances below floor" if broken else None)})
                    if not ok:
                        failed.append("%s: %s raised an alarm on a behaviour-preserving refactoring (%s)" % (
                            eid, rn, new_v[0].key if new_v else "instances below floor"))
                    continue
                rep = rulebase.run_rule(rn, db)
                hit = [v for v in rep.violations if ks in v.key]
                results.append({"variant": eid, "rule": rn, "expected_key": ks, "status": "reported" if hit else "NOT-REPORTED",
                                "reported_as": hit[0].key if hit else None, "at": hit[0].loc if hit else None})
                if not hit:
                    failed.append("%s: %s did not report a violation with key containing %r (reported: %s)" % (
                        eid, rn, ks, [v.key for v in rep.violations][:5]))
        finally:
            shutil.rmtree(scratch, ignore_errors=True)
    if failed:
        raise AnalysisBroken("checker self-test failed: " + "; ".join(failed))
    return results


if __name__ == "__main__":
    import sys
    import props
    only = set(sys.argv[1:]) or None
    allrules = set(rulebase.RULES)
    for r in run_for("ALL", allrules, only):
        print(r)
