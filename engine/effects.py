"""Interprocedural MOD / FREE / returns / out-parameter summaries with pointer roots.

Abstract memory blocks ("regions"), depth-limited access paths:
    ('this',)            the receiver object itself
    ('this','f')         the block pointer field f of the receiver points to (and so on, depth <= 3)
    ('param',i)          the block parameter i points / refers to;  ('param',i,'f') one level further
    ('global',usr)       a variable with static storage
    ('fresh',)           memory allocated in (or below) the function itself
    ('local',d)          storage of a local variable (only inside one function, never in a summary)
    ('const',)           string literals
    ('unknown',)         anything else
An *effect* is (region, label): label is the field written in that block (or None for an element store).

Flow-insensitive inside a function (all definitions of a local pointer are merged), iterated to a global
fixpoint over the call graph (virtual calls: class-hierarchy analysis).
"""
import collections
from core import *

DEPTH = 3
ACCESSORS = {"operator[]", "at", "begin", "end", "cbegin", "cend", "rbegin", "rend", "front", "back", "data", "c_str",
             "size", "empty", "length", "capacity", "get", "operator*", "operator->", "find", "count", "lower_bound",
             "upper_bound", "first", "second", "operator bool", "max_size", "getline_dummy"}
ALLOC_FUNCS = {"malloc", "calloc", "realloc", "strdup", "operator new", "operator new[]"}
FREE_FUNCS = {"free", "operator delete", "operator delete[]"}
RET_ARG0 = {"memcpy", "memmove", "strcpy", "strncpy", "strcat", "strncat", "memset"}
# index (negative = from the end) of the arguments a standard algorithm writes through
STD_ALGO_WRITES = {"copy": [2], "copy_n": [2], "copy_backward": [2], "move": [2], "move_backward": [2], "copy_if": [2],
                   "fill": [0], "fill_n": [0], "iota": [0], "generate": [0], "generate_n": [0],
                   "partial_sum": [2], "adjacent_difference": [2], "transform": [-2],
                   "sort": [0], "stable_sort": [0], "reverse": [0], "rotate": [0], "unique": [0], "remove": [0], "remove_if": [0],
                   "swap_ranges": [0, 2], "nth_element": [0], "partial_sort": [0],
                   "max_element": [], "min_element": [], "find": [], "find_if": [], "count": [], "count_if": [], "accumulate": [],
                   "lower_bound": [], "upper_bound": [], "binary_search": [], "equal": [], "mismatch": [], "distance": [],
                   "adjacent_find": [], "all_of": [], "any_of": [], "none_of": [], "equal_range": [], "search": [], "max": [], "min": []}
PURE_EXT = {"strlen", "strcmp", "strncmp", "memcmp", "pow", "log", "ceil", "floor", "sqrt", "abs", "log2", "exp", "min", "max",
            "move", "forward", "isspace", "atoi", "bits", "lower_bound", "upper_bound", "operator-", "operator==", "operator!=",
            "operator<", "operator>", "operator<=", "operator>=", "operator+", "distance", "swap_dummy", "assert", "__assert_fail",
            "abort", "exit", "getrusage_dummy"}


def trunc(r):
    return r if len(r) <= DEPTH + (1 if r and r[0] in ("param", "global") else 0) else r[:DEPTH + (1 if r[0] in ("param", "global") else 0)]


def extend(r, sel):
    if r[0] in ("fresh", "const", "unknown"):
        return r
    return trunc(r + (sel,))


class Summary:
    __slots__ = ("mod", "free", "ret", "out", "gread", "origin")

    def __init__(self):
        self.mod = set()      # {(region, label)}
        self.free = set()     # {region}
        self.ret = set()      # {region}
        self.out = collections.defaultdict(set)   # param index -> {region} pointer values stored into *param
        self.gread = set()    # globals read
        self.origin = {}      # ('mod'|'free', item) -> (func id, node line, via callee id or None)

    def size(self):
        return len(self.mod) + len(self.free) + len(self.ret) + sum(len(v) for v in self.out.values()) + len(self.gread)


class Effects:
    def __init__(self, db):
        self.db = db
        self.sum = {fid: Summary() for fid in db.funcs}
        self.localpts = {}      # fid -> {(d,) or (d, field): set(regions)}
        self.fieldpts = collections.defaultdict(set)   # (record, field) -> regions assigned (in the assigning method's terms)
        self.field_assign_sites = collections.defaultdict(list)
        self._events = {}
        self.solve()

    # ------------------------------------------------------------------ per function event lists
    def events(self, f):
        ev = self._events.get(f.id)
        if ev is not None:
            return ev
        ev = {"assign": [], "decl": [], "calls": [], "delete": [], "ret": [], "incdec": [], "greads": [], "lambdas": []}
        for n in f.live_nodes():
            k = n["k"]
            if is_assignment(n):
                ev["assign"].append(n)
            elif k == "UnaryOperator" and n["op"] in ("++", "--"):
                ev["incdec"].append(n)
            elif k == "DeclStmt":
                for d in n["decls"]:
                    if d.get("k") == "VarDecl":
                        ev["decl"].append(d)
            elif k in ("CallExpr", "CXXMemberCallExpr", "CXXOperatorCallExpr", "CXXConstructExpr", "CXXTemporaryObjectExpr"):
                ev["calls"].append(n)
            elif k == "CXXDeleteExpr":
                ev["delete"].append(n)
            elif k == "ReturnStmt":
                if n.get("value") is not None:
                    ev["ret"].append(n)
            elif k == "DeclRefExpr" and n.get("dk") in ("global", "staticlocal", "staticmember") and not n.get("const"):
                ev["greads"].append(n)
            elif k == "MemberExpr" and n.get("mk") == "staticmember" and not n.get("const"):
                ev["greads"].append(n)
            elif k == "LambdaExpr":
                ev["lambdas"].append(n)
        ev["inits"] = [i for i in f.raw.get("inits", []) if i.get("field") and isinstance(i.get("init"), dict)]
        self._events[f.id] = ev
        return ev

    # ------------------------------------------------------------------ pointer evaluation
    def is_ptr_like(self, f, n):
        t = f.type(n)
        return bool(t) and t["kind"] in ("ptr", "ref", "array")

    def pts(self, f, n, lp):
        """Regions the pointer-valued (or reference/lvalue-designating) expression may point to."""
        n = strip(n)
        if not isinstance(n, dict):
            return set()
        k = n["k"]
        if k == "CXXThisExpr":
            return {("this",)}
        if k == "DeclRefExpr":
            dk = n.get("dk")
            if dk == "param":
                t = f.type(n)
                # a by-value pointer param points to ('param', i); locals may also have been re-assigned
                base = {("param", n["pi"])}
                extra = lp.get((n["d"],))
                return base | extra if extra else base
            if dk == "local":
                return set(lp.get((n["d"],), ()))
            if dk in ("global", "staticlocal", "staticmember"):
                return {("global", n["u"])}
            return set()
        if k == "MemberExpr":
            if n.get("mk") == "staticmember":
                return {("global", n["u"])}
            if n.get("mk") != "field":
                return set()
            out = set()
            for r in self.obj_regions(f, n["base"], n.get("arrow"), lp):
                if r[0] == "local":
                    out |= lp.get((r[1], n["n"]), set())
                else:
                    out.add(extend(r, n["n"]))
            return out
        if k == "ArraySubscriptExpr":
            # element of an array of pointers / nested arrays
            return {extend(r, "*") if r[0] != "local" else ("unknown",) for r in self.pts(f, n["base"], lp)} if \
                self.is_ptr_like(f, n) else set()
        if k == "UnaryOperator":
            op = n["op"]
            if op == "*":
                out = set()
                for r in self.pts(f, n["sub"], lp):
                    if r[0] == "local":
                        out |= lp.get((r[1],), set())
                    else:
                        out.add(extend(r, "*"))
                return out
            if op == "&":
                return self.lvalue_regions(f, n["sub"], lp)
            if op in ("++", "--"):
                return self.pts(f, n["sub"], lp)
            return set()
        if k in ("BinaryOperator", "CompoundAssignOperator"):
            op = n["op"]
            if op in ("+", "-", "+=", "-="):
                a = self.pts(f, n["lhs"], lp) if self.is_ptr_like(f, n["lhs"]) else set()
                b = self.pts(f, n["rhs"], lp) if op == "+" and self.is_ptr_like(f, n["rhs"]) else set()
                return a | b
            if op == "=":
                return self.pts(f, n["rhs"], lp)
            if op == ",":
                return self.pts(f, n["rhs"], lp)
            return set()
        if k == "ConditionalOperator":
            return self.pts(f, n["then"], lp) | self.pts(f, n["else"], lp)
        if k == "CXXNewExpr":
            return {("fresh",)}
        if k == "StringLiteral":
            return {("const",)}
        if k in ("CallExpr", "CXXMemberCallExpr", "CXXOperatorCallExpr"):
            return self.call_ret(f, n, lp)
        if k in ("CXXConstructExpr", "CXXTemporaryObjectExpr"):
            # copy/move construction of a pointer-like wrapper: value of the single argument
            if len(n.get("args", [])) == 1:
                return self.pts(f, n["args"][0], lp)
            return set()
        if k == "InitListExpr":
            return set()
        if k in ("CXXNullPtrLiteralExpr", "GNUNullExpr", "IntegerLiteral"):
            return set()
        if k == "LambdaExpr":
            return {("fresh",)}
        return set()

    def obj_regions(self, f, base, arrow, lp):
        """Regions of the object whose member is accessed by base.f / base->f."""
        if arrow:
            return self.pts(f, base, lp)
        return self.lvalue_regions(f, base, lp)

    def lvalue_regions(self, f, n, lp):
        """Regions (blocks) in which the lvalue n lives."""
        n = strip(n)
        if not isinstance(n, dict):
            return set()
        k = n["k"]
        if k == "DeclRefExpr":
            dk = n.get("dk")
            if dk == "local":
                t = f.type(n)
                if t and t["kind"] == "ref":
                    return set(lp.get((n["d"],), ()))
                return {("local", n["d"])}
            if dk == "param":
                t = f.types[f.params[n["pi"]]["t"]] if n["pi"] < len(f.params) else None
                if t and t["kind"] == "ref":
                    return {("param", n["pi"])}
                return {("local", n["d"])}
            if dk in ("global", "staticlocal", "staticmember"):
                return {("global", n["u"])}
            return set()
        if k == "MemberExpr":
            if n.get("mk") == "staticmember":
                return {("global", n["u"])}
            return self.obj_regions(f, n["base"], n.get("arrow"), lp)
        if k == "ArraySubscriptExpr":
            bt = f.type(n["base"])
            sb = strip(n["base"])
            # subscript on a true array member/local: lives in the enclosing block; on a pointer: pointee block
            if sb.get("k") in ("MemberExpr", "DeclRefExpr") and (f.type(sb) or {}).get("kind") == "array":
                return self.lvalue_regions(f, sb, lp)
            return self.pts(f, n["base"], lp)
        if k == "UnaryOperator" and n["op"] == "*":
            return self.pts(f, n["sub"], lp)
        if k == "UnaryOperator" and n["op"] in ("++", "--"):
            return self.lvalue_regions(f, n["sub"], lp)
        if k in ("CallExpr", "CXXMemberCallExpr", "CXXOperatorCallExpr"):
            return self.call_ret(f, n, lp)      # reference-returning call (operator[], front(), *it ...)
        if k == "ConditionalOperator":
            return self.lvalue_regions(f, n["then"], lp) | self.lvalue_regions(f, n["else"], lp)
        if k == "CXXThisExpr":
            return {("this",)}
        if k in ("BinaryOperator", "CompoundAssignOperator") and is_assignment(n):
            return self.lvalue_regions(f, n["lhs"], lp)
        return set()

    def label_of(self, f, n):
        n = strip(n)
        if isinstance(n, dict) and n["k"] == "MemberExpr" and n.get("mk") == "field":
            return n["n"]
        if isinstance(n, dict) and n["k"] == "ArraySubscriptExpr":
            sb = strip(n["base"])
            if sb.get("k") == "MemberExpr" and (f.type(sb) or {}).get("kind") == "array":
                return sb["n"]
        return None

    # ------------------------------------------------------------------ calls
    def targets(self, f, n):
        return [t for t in self.db.call_targets(f, n) if t in self.db.funcs]

    def call_obj_regions(self, f, n, lp):
        if n["k"] == "CXXMemberCallExpr" and n.get("obj") is not None:
            return self.obj_regions(f, n["obj"], n.get("arrow"), lp)
        if n["k"] == "CXXOperatorCallExpr" and n.get("frec") and n.get("args"):
            return self.lvalue_regions(f, n["args"][0], lp) | (
                self.pts(f, n["args"][0], lp) if self.is_ptr_like(f, n["args"][0]) else set())
        return set()

    def call_args(self, n):
        args = n.get("args", [])
        if n["k"] == "CXXOperatorCallExpr" and n.get("frec"):
            return args[1:]     # first arg is the object
        return args

    def arg_regions(self, f, callee_params, i, a, lp):
        """What parameter i of the callee designates in the caller: pointee blocks of a pointer argument,
        or the lvalue blocks of an argument bound to a reference."""
        t = f.type(a)
        sa = strip(a)
        res = set()
        if t and t["kind"] in ("ptr", "array"):
            res |= self.pts(f, a, lp)
        else:
            res |= self.lvalue_regions(f, a, lp)
        return res

    def translate(self, f, n, lp, r, callee):
        """Callee region -> caller regions at call node n."""
        if r[0] == "this":
            objs = self.call_obj_regions(f, n, lp)
            if n["k"] in ("CXXConstructExpr", "CXXTemporaryObjectExpr"):
                return {("fresh",)}       # object under construction: new / local / temporary
            out = set()
            for o in objs:
                out |= self.append(o, r[1:], lp)
            return out
        if r[0] == "param":
            args = self.call_args(n)
            i = r[1]
            if i >= len(args):
                return set()
            out = set()
            for a in self.arg_regions(f, None, i, args[i], lp):
                out |= self.append(a, r[2:], lp)
            return out
        if r[0] in ("global", "unknown", "const"):
            return {r}
        if r[0] == "fresh":
            return {("fresh",)}
        return set()

    def append(self, base, rest, lp):
        if base[0] == "local":
            if not rest:
                return {base}
            vals = lp.get((base[1], rest[0]), None)
            if vals is None:
                vals = lp.get((base[1],), set()) if rest[0] == "*" else set()
            out = set()
            for v in vals:
                out |= self.append(v, rest[1:], lp)
            return out
        r = base
        for s in rest:
            r = extend(r, s)
        return {r}

    def call_ret(self, f, n, lp):
        name = callee_name(n)
        tg = self.targets(f, n)
        if tg:
            out = set()
            for t in tg:
                callee = self.db.funcs[t]
                for r in self.sum[t].ret:
                    out |= self.translate(f, n, lp, r, callee)
            return out
        if name in ALLOC_FUNCS or name == "loadValue" or name in ("make_unique", "make_shared"):
            return {("fresh",)}
        if name in RET_ARG0 and n.get("args"):
            return self.pts(f, n["args"][0], lp)
        if n.get("ext") or not tg:
            # accessor of a std:: container / smart pointer: designates (part of) the object
            if name in ACCESSORS or name.startswith("operator"):
                objs = self.call_obj_regions(f, n, lp)
                if name in ("get", "operator->", "operator*") and n.get("frec", "").startswith("std::unique_ptr"):
                    return {extend(o, "*") if o[0] != "local" else ("unknown",) for o in objs}
                return objs
            if name in ("move", "forward") and n.get("args"):
                return self.lvalue_regions(f, n["args"][0], lp)
            t = f.type(n)
            if t and t["kind"] in ("ptr", "ref"):
                return {("unknown",)}
        return set()

    # ------------------------------------------------------------------ one pass over one function
    def analyse(self, f):
        ev = self.events(f)
        S = self.sum[f.id]
        before = S.size()
        lp = self.localpts.setdefault(f.id, {})
        lp_size = sum(len(v) for v in lp.values())

        def eff(regions, label, node, kind="mod", via=None):
            for r in regions:
                if r[0] in ("local", "fresh", "const"):
                    continue
                if kind == "mod":
                    item = (trunc(r), label if len(r) == 1 or r[0] in ("param", "global") and len(r) == 2 else None)
                    if item not in S.mod:
                        S.mod.add(item)
                        S.origin[("mod", item)] = (f.id, node.get("l") if node else f.line, via)
                else:
                    item = trunc(r)
                    if item not in S.free:
                        S.free.add(item)
                        S.origin[("free", item)] = (f.id, node.get("l") if node else f.line, via)

        def store(lhs, rhs, node):
            """Assignment lhs = rhs (rhs may be None for ++ etc.)."""
            lregs = self.lvalue_regions(f, lhs, lp)
            label = self.label_of(f, lhs)
            eff(lregs, label, node)
            if rhs is None:
                return
            lt = f.type(lhs)
            if lt and lt["kind"] in ("ptr",):
                vals = self.pts(f, rhs, lp)
                sl = strip(lhs)
                for r in lregs:
                    if r[0] == "local":
                        key = (r[1],) if sl["k"] != "MemberExpr" else (r[1], sl["n"])
                        lp.setdefault(key, set()).update(vals)
                    elif r[0] == "param" and len(r) == 2 and sl["k"] == "UnaryOperator":
                        S.out[r[1]].update(v for v in vals if v[0] != "local")
                    elif r[0] == "param" and len(r) == 2 and sl["k"] == "DeclRefExpr":
                        S.out[r[1]].update(v for v in vals if v[0] != "local")   # T*& param
                if sl["k"] == "MemberExpr" and sl.get("mk") == "field" and f.rec:
                    if any(r == ("this",) for r in lregs):
                        self.fieldpts[(sl.get("rec"), sl["n"])].update(vals)

        # ctor initialisers: field(init)
        for ini in ev["inits"]:
            S.mod.add((("this",), ini["field"]))
            S.origin.setdefault(("mod", (("this",), ini["field"])), (f.id, f.line, None))
            ft = self.db.field(f.rec, ini["field"]) if f.rec else None
            if ft and ft[2][ft[1]["t"]]["kind"] == "ptr":
                self.fieldpts[(ft[0], ini["field"])].update(self.pts(f, ini["init"], lp))
        for d in ev["decl"]:
            ini = d.get("init")
            if ini is None or "d" not in d:
                continue
            t = f.types[d["t"]]
            if t["kind"] in ("ptr",):
                lp.setdefault((d["d"],), set()).update(self.pts(f, ini, lp))
            elif t["kind"] == "ref":
                lp.setdefault((d["d"],), set()).update(self.lvalue_regions(f, ini, lp) if not self.is_ptr_like(f, strip(ini)) or True else set())
            elif t["kind"] == "rec":
                si = strip(ini)
                if si["k"] == "InitListExpr" and si.get("fields"):
                    for fname, e in zip(si["fields"], si.get("inits", [])):
                        if isinstance(e, dict) and self.is_ptr_like(f, e):
                            lp.setdefault((d["d"], fname), set()).update(self.pts(f, e, lp))
                elif si["k"] in ("CallExpr", "CXXMemberCallExpr"):
                    # aggregate returned by value: pointer members point to whatever the callee's summary says (fresh/unknown)
                    for t2 in self.targets(f, si):
                        for r in self.sum[t2].ret:
                            pass
                elif si["k"] in ("CXXConstructExpr", "CXXTemporaryObjectExpr") and len(si.get("args", [])) == 1 and \
                        strip(si["args"][0])["k"] in ("CallExpr", "CXXMemberCallExpr"):
                    pass
        for n in ev["assign"]:
            store(n["lhs"], n["rhs"] if n["op"] == "=" else None, n)
            if n["op"] in ("+=", "-=") and self.is_ptr_like(f, n["lhs"]):
                pass
        for n in ev["incdec"]:
            store(n["sub"], None, n)
        for n in ev["delete"]:
            eff(self.pts(f, n["sub"], lp), None, n, kind="free")
        for n in ev["greads"]:
            S.gread.add(n["u"])
        for n in ev["ret"]:
            v = n["value"]
            rt = f.types[f.raw["ret"]]
            if rt["kind"] in ("ptr", "ref"):
                vals = self.pts(f, v, lp) if rt["kind"] == "ptr" else self.lvalue_regions(f, v, lp)
                S.ret.update(r for r in vals if r[0] != "local")
        for n in ev["calls"]:
            self.call_effects(f, n, lp, S, eff)
        for n in ev["lambdas"]:
            # creating a closure has no effect; its body is analysed as its own function
            pass
        return S.size() != before or sum(len(v) for v in lp.values()) != lp_size

    def call_effects(self, f, n, lp, S, eff):
        name = callee_name(n)
        tg = self.targets(f, n)
        args = self.call_args(n)
        if tg:
            for t in tg:
                callee = self.db.funcs[t]
                cs = self.sum[t]
                for (r, label) in list(cs.mod):
                    if n["k"] in ("CXXConstructExpr", "CXXTemporaryObjectExpr") and r[0] == "this":
                        continue
                    for rr in self.translate(f, n, lp, r, callee):
                        if rr[0] in ("local", "fresh", "const"):
                            continue
                        item = (trunc(rr), label if len(rr) == len(r) else None)
                        if item not in S.mod:
                            S.mod.add(item)
                            S.origin[("mod", item)] = (f.id, n.get("l"), (t, (r, label)))
                for r in list(cs.free):
                    for rr in self.translate(f, n, lp, r, callee):
                        if rr[0] in ("local", "fresh", "const"):
                            continue
                        item = trunc(rr)
                        if item not in S.free:
                            S.free.add(item)
                            S.origin[("free", item)] = (f.id, n.get("l"), (t, r))
                for u in cs.gread:
                    S.gread.add(u)
                # out-parameters: pointer values the callee stores into *param_i
                for i, vals in cs.out.items():
                    if i >= len(args):
                        continue
                    tv = set()
                    for v in vals:
                        tv |= self.translate(f, n, lp, v, callee)
                    for a in self.arg_regions(f, None, i, args[i], lp):
                        if a[0] == "local":
                            lp.setdefault((a[1],), set()).update(tv)
                        elif a[0] == "param" and len(a) == 2:
                            S.out[a[1]].update(x for x in tv if x[0] != "local")
            return
        # ---- external / unresolved callee ----
        if name in FREE_FUNCS and args:
            eff(self.pts(f, args[0], lp), None, n, kind="free")
            return
        if name in PURE_EXT or name in ALLOC_FUNCS:
            if name == "realloc" and args:
                eff(self.pts(f, args[0], lp), None, n, kind="free")
            return
        if n["k"] in ("CXXConstructExpr", "CXXTemporaryObjectExpr"):
            return
        is_member = n["k"] == "CXXMemberCallExpr" or (n["k"] == "CXXOperatorCallExpr" and n.get("frec"))
        if is_member:
            if n.get("fconst") or name in ACCESSORS:
                pass
            else:
                # mutating method of an external class (std container, stream, mutex ...): modifies the object
                objs = self.call_obj_regions(f, n, lp)
                eff(objs, self.label_of(f, n.get("obj")) if n.get("obj") is not None else None, n)
        # writes through pointer / reference parameters to non-const.  The standard algorithms are templates over iterators, so
        # every pointer argument looks writable; what they actually write is known
        pw = n.get("pw", [])
        if (n.get("fn") or "").startswith("std::") and name in STD_ALGO_WRITES:
            pw = [i if i >= 0 else len(args) + i for i in STD_ALGO_WRITES[name]]
        for i in pw:
            j = i
            if j < len(args):
                a = args[j]
                eff(self.arg_regions(f, None, j, a, lp), self.label_of(f, a), n)

    # ------------------------------------------------------------------ global fixpoint
    def solve(self):
        order = sorted(self.db.funcs.values(), key=lambda f: (f.file, f.line))
        for rounds in range(1, 30):
            changed = False
            for f in order:
                if self.analyse(f):
                    changed = True
            if not changed:
                break
        self.rounds = rounds

    # ------------------------------------------------------------------ reporting helpers
    def explain(self, fid, kind, item, depth=0):
        """Call chain from function fid down to the statement that produces the effect."""
        chain = []
        seen = set()
        while fid is not None and (fid, item) not in seen and depth < 12:
            seen.add((fid, item))
            o = self.sum[fid].origin.get((kind, item))
            f = self.db.funcs[fid]
            if o is None:
                chain.append("%s (%s)" % (f.qn, f.loc))
                break
            _, line, via = o
            chain.append("%s (%s:%s)" % (f.qn, f.file, line))
            if via is None:
                break
            fid, item = via[0], via[1]
            depth += 1
        return chain


_EFF = {}


def get_effects(db):
    if id(db) not in _EFF:
        _EFF[id(db)] = Effects(db)
    return _EFF[id(db)]


def fmt_region(r):
    if r[0] == "this":
        return "this" + "".join("->" + s for s in r[1:])
    if r[0] == "param":
        return "*param%d" % r[1] + "".join("->" + s for s in r[2:])
    if r[0] == "global":
        return "global " + r[1] + "".join("->" + s for s in r[2:])
    return r[0]
