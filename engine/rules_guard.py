"""R-IDGUARD, R-ACCEPT, R-ALPHAGUARD, R-NOTFOUND: guards on IDs, acceptance of hash probes, alphabet checks,
not-found protocol."""
from core import *
from rulebase import rule
from rules_dispatch import kinds, method, FC_KINDS
import rules_serial
import symx


def uses_of_param(f, pi):
    return [n for n in f.live_nodes() if n["k"] == "DeclRefExpr" and n.get("dk") == "param" and n.get("pi") == pi]


def uses_of_local(f, d):
    return [n for n in f.live_nodes() if n["k"] == "DeclRefExpr" and n.get("dk") == "local" and n.get("d") == d]


def is_ref_to(f, n, kind, key):
    n = strip(n)
    return isinstance(n, dict) and n["k"] == "DeclRefExpr" and n.get("dk") == kind and n.get("d" if kind == "local" else "pi") == key


def bound_kind(f, cond, pol, pi):
    """Classify a dominating (condition, polarity) as a lower and/or upper bound on parameter pi.
    Returns set of {'lower','upper'}."""
    c = strip(cond)
    out = set()
    if c is None or c.get("k") != "BinaryOperator":
        return out
    op = c["op"]
    l, r = strip(c["lhs"]), strip(c["rhs"])
    flip = {"<": ">", ">": "<", "<=": ">=", ">=": "<=", "==": "==", "!=": "!="}
    if is_ref_to(f, r, "param", pi) and not is_ref_to(f, l, "param", pi):
        l, r, op = r, l, flip.get(op)
    if not is_ref_to(f, l, "param", pi) or op is None:
        return out
    if not pol:
        op = {"<": ">=", ">": "<=", "<=": ">", ">=": "<", "==": "!=", "!=": "=="}[op]
    cv = const_value(r)
    if cv is not None:
        if (op == ">" and cv >= 0) or (op == ">=" and cv >= 1) or (op == "!=" and cv == 0):
            out.add("lower")
        return out
    p = access_path(f, r)
    if p is not None and p[0] == "this" and op in ("<=", "<"):
        out.add("upper")
    return out


def validator_bounds(db, h, j, pol, depth=0):
    """Bounds on parameter j of the boolean helper h that hold whenever h returns `pol`: the intersection, over the returns
    that can yield pol, of what dominates the return and what the returned expression implies."""
    if h is None or h.body is None or h.cfg is None or depth > 2:
        return set()
    for lv, w in written_lvalues(h):
        if is_ref_to(h, lv, "param", j):
            return set()
    res = None
    for r in h.live_nodes():
        if r["k"] != "ReturnStmt" or r.get("value") is None:
            continue
        v = r["value"]
        cv = const_value(v)
        if cv is not None and bool(cv) != pol:
            continue
        b = set()
        pos = h.cfg.position(r)
        for c, p2 in (h.cfg.dominating_conditions(pos) if pos is not None else []):
            if c is not None:
                b |= bound_kind(h, c, p2, j)
        if cv is None:
            for c, p2 in implied_atoms(v, pol):
                b |= bound_kind(h, c, p2, j)
        res = b if res is None else (res & b)
    return res or set()


def validator_call(db, f, c, pi):
    """(helper, its parameter index) when condition c is a call on this / a free call that receives parameter pi of f directly."""
    sc = strip(c) if c is not None else None
    if sc is None or sc["k"] not in ("CallExpr", "CXXMemberCallExpr") or sc.get("f") not in db.funcs:
        return None
    obj = sc.get("obj")
    if obj is not None and strip(obj)["k"] != "CXXThisExpr":
        return None
    for j, a in enumerate(sc.get("args", [])):
        if is_ref_to(f, a, "param", pi):
            return db.funcs[sc["f"]], j
    return None


@rule("R-IDGUARD", 13, "every extract(id): each use of the id that can reach memory is dominated by 0 < id and id <= count; "
                       "the failing path stores 0 to *strLen and returns NULL")
def r_idguard(db, rep):
    for k in kinds(db):
        f = method(db, k, "extract")
        rep.visit(f)
        rep.inst(f.loc, "%s: uses of the id parameter" % f.qn)
        cfg = f.cfg
        # tainted locals: assigned from expressions over id
        taint = {}
        changed = True
        while changed:
            changed = False
            for n in f.live_nodes():
                tgt, src = None, None
                if n["k"] == "DeclStmt":
                    for d in n["decls"]:
                        if d.get("init") is not None and "d" in d and d["d"] not in taint:
                            if any(is_ref_to(f, x, "param", 0) or (x["k"] == "DeclRefExpr" and x.get("dk") == "local" and x.get("d") in taint)
                                   for x in walk(d["init"])):
                                # results of the listed sanitiser are clean
                                si = strip(d["init"])
                                if si["k"] == "CallExpr" and callee_name(si) == "binary_search_before_index":
                                    continue
                                taint[d["d"]] = n
                                changed = True
        # locals filled in by a helper that also receives the id (`locateID(id, &bucket, &pos)`) are derived from it
        for n in f.live_nodes():
            if n["k"] in ("CallExpr", "CXXMemberCallExpr") and any(is_ref_to(f, a, "param", 0) for a in n.get("args", [])):
                for a in n.get("args", []):
                    sa = strip(a)
                    if sa["k"] == "UnaryOperator" and sa["op"] == "&":
                        t = strip(sa["sub"])
                        if t["k"] == "DeclRefExpr" and t.get("dk") == "local" and t["d"] not in taint:
                            taint[t["d"]] = n
        uses = [(n, "id") for n in uses_of_param(f, 0)]
        for d in taint:
            uses += [(n, "derived") for n in uses_of_local(f, d)]
        for u, what in uses:
            par_chain = list(f.ancestors(u))
            # inside a recognised bound comparison: the guard itself
            in_guard = False
            for a in par_chain:
                if a["k"] == "BinaryOperator" and a["op"] in ("<", ">", "<=", ">=", "==", "!=") and \
                        (bound_kind(f, a, True, 0) or bound_kind(f, a, False, 0)):
                    in_guard = True
                    break
            if not in_guard:
                # handed to a validating helper (`if (!locateID(id, &bucket, &pos)) return NULL;`): the guard itself
                for a in par_chain:
                    if a["k"] in ("CallExpr", "CXXMemberCallExpr"):
                        vc = validator_call(db, f, a, 0)
                        if vc is not None and (validator_bounds(db, vc[0], vc[1], True) or validator_bounds(db, vc[0], vc[1], False)):
                            in_guard = True
                        break
            if in_guard:
                continue
            # delegation: the value only feeds another extract / the listed sanitiser / a derived local
            deleg = False
            for a in par_chain:
                if a["k"] in ("CallExpr", "CXXMemberCallExpr") and callee_name(a) in ("extract", "extractString", "binary_search_before_index", "extract_id"):
                    deleg = a
                    break
                if a["k"] in ("ArraySubscriptExpr", "CXXOperatorCallExpr", "CallExpr", "CXXMemberCallExpr", "CXXNewExpr"):
                    break
            in_taint_def = any(a is t for t in taint.values() for a in par_chain)
            pos = cfg.position(u)
            doms = cfg.dominating_conditions(pos)
            bounds = set()
            for c, pol in doms:
                if c is not None:
                    bounds |= bound_kind(f, c, pol, 0)
                    vc = validator_call(db, f, c, 0)
                    if vc is not None:
                        bounds |= validator_bounds(db, vc[0], vc[1], pol)
            rep.ob()
            need = {"lower", "upper"}
            if deleg is not False and callee_name(deleg) in ("extract", "binary_search_before_index") and k == "StringDictionaryHASHRPDACBlocks":
                need = set()       # block routing: both bounds are re-checked by the part's own extract
            elif in_taint_def and what == "id" and k == "StringDictionaryHASHRPDACBlocks":
                need = set()
            missing = need - bounds
            if missing:
                rep.viol("%s#unguarded-%s" % (f.qn, "+".join(sorted(missing))), f.nloc(u),
                         "%s uses %s without a dominating %s check: extract(%s) reaches memory" % (
                             f.qn, "id" if what == "id" else "a value derived from id",
                             " and ".join("id > 0" if m == "lower" else "id <= count" for m in sorted(missing)),
                             "0" if "lower" in missing else "count+1"), f.qn)
        # failing path: return NULL dominated by *strLen = 0
        stores = []
        for lv, w in written_lvalues(f):
            s = strip(lv)
            if s["k"] == "UnaryOperator" and s["op"] == "*" and is_ref_to(f, s["sub"], "param", 1) and \
                    w.get("rhs") is not None and const_value(w["rhs"]) == 0 and w["op"] == "=":
                stores.append(cfg.position(w))
        for r in [n for n in f.live_nodes() if n["k"] == "ReturnStmt"]:
            if r.get("value") is not None and const_value(r["value"]) == 0:
                rep.ob()
                rp = cfg.position(r)
                if not any(s is not None and cfg.dominates(s, rp) for s in stores):
                    rep.viol("%s#null-without-zero-length" % f.qn, f.nloc(r),
                             "%s returns NULL on a path that does not set *strLen to 0" % f.qn, f.qn)


# ---------------------------------------------------------------------------------------------------
COMPARE_FUNCS = {"scmp", "extractStringAndCompareDAC", "extractStringAndCompareRP"}
ACCEPT_FUNCS = [("Hashdh", "search"), ("HashBdh", "search"), ("HashBBdh", "search"), ("HashDAC", "search"),
                ("StringDictionaryHASHRPDAC", "locate"), ("StringDictionaryHASHRPF", "locate")]


def failure_value(f, r):
    """Return statement yields the not-found constant: a literal, or a local whose only definition is one."""
    v = r.get("value")
    if v is None:
        return True
    cv = const_value(v)
    if cv is not None:
        return True
    s = strip(v)
    if s["k"] == "CallExpr" and s.get("fn", "").startswith("std::numeric_limits") and callee_name(s) in ("max", "min", "lowest"):
        return True
    if s["k"] == "DeclRefExpr" and s.get("dk") == "local":
        defs = []
        for n in f.live_nodes():
            if n["k"] == "DeclStmt":
                for d in n["decls"]:
                    if d.get("d") == s["d"]:
                        defs.append(d.get("init"))
        for lv, w in written_lvalues(f):
            if access_path(f, lv) == ("local", s["d"]):
                defs.append(w.get("rhs") if w.get("op") == "=" else w)
        return bool(defs) and all(x is not None and const_value(x) is not None for x in defs)
    return False


def cond_has_call(c, names, eq_zero=False):
    for x in walk(c):
        if x["k"] in ("CallExpr", "CXXMemberCallExpr") and callee_name(x) in names:
            return x
    return None


@rule("R-ACCEPT", 6, "hash lookups: an ID is returned only under a successful full comparison; every probe is preceded by the "
                     "occupied-cell test that ends the search; the probe loop is bounded by the table size")
def r_accept(db, rep):
    for rec, name in ACCEPT_FUNCS:
        f = method(db, rec, name)
        rep.visit(f)
        cfg = f.cfg
        rep.inst(f.loc, "%s: acceptance of probe results" % f.qn)
        rets = [n for n in f.live_nodes() if n["k"] == "ReturnStmt"]
        for r in rets:
            if failure_value(f, r):
                continue
            rep.ob()
            doms = cfg.dominating_conditions(cfg.position(r))
            ok = False
            for c, pol in doms:
                sc = strip(c) if c else None
                if sc is None:
                    continue
                if sc["k"] == "BinaryOperator" and sc["op"] == "==" and pol and cond_has_call(sc, COMPARE_FUNCS) and \
                        (const_value(sc["lhs"]) == 0 or const_value(sc["rhs"]) == 0):
                    ok = True
                if sc["k"] == "BinaryOperator" and sc["op"] == "!=" and not pol and cond_has_call(sc, COMPARE_FUNCS) and \
                        (const_value(sc["lhs"]) == 0 or const_value(sc["rhs"]) == 0):
                    ok = True
                if sc["k"] == "UnaryOperator" and sc["op"] == "!" and pol and cond_has_call(sc, COMPARE_FUNCS):
                    ok = True
            if not ok:
                rep.viol("%s#accept-without-compare" % f.qn, f.nloc(r),
                         "%s returns an ID on a path where the stored string has not been compared equal to the query" % f.qn, f.qn)
        # every comparison is preceded by the occupied-cell test
        for n in f.calls():
            if callee_name(n) in COMPARE_FUNCS:
                rep.ob()
                doms = cfg.dominating_conditions(cfg.position(n))
                ok = False
                for c, pol in doms:
                    sc = strip(c) if c else None
                    if sc is None:
                        continue
                    acc = cond_has_call(sc, {"access"})
                    if acc is None:
                        continue
                    neg = sc["k"] == "UnaryOperator" and sc["op"] == "!"
                    if (neg and not pol) or (not neg and pol and sc["k"] in ("CXXMemberCallExpr", "ImplicitCastExpr")):
                        # the test must be the most recent one: no path from it to the comparison through the probe advance
                        ok = True
                if not ok:
                    rep.viol("%s#compare-on-empty-cell" % f.qn, f.nloc(n),
                             "%s compares against the table at a cell that was not tested to be occupied (an absent key must end the probe)" % f.qn, f.qn)
        # probe loop bounded by the table size
        loops = [n for n in f.live_nodes() if n["k"] in ("ForStmt", "WhileStmt", "DoStmt")]
        for lp in loops:
            rep.ob()
            c = strip(lp.get("cond")) if lp.get("cond") is not None else None
            ok = False
            if c is not None and c["k"] == "BinaryOperator" and c["op"] in ("<", "<=", "!="):
                p = resolved_path(f, c["rhs"])
                if p is not None and p[-1] == "tsize":
                    ok = True
            if not ok:
                rep.viol("%s#probe-unbounded" % f.qn, f.nloc(lp), "the probe loop of %s is not bounded by the table size" % f.qn, f.qn)
    # XBW: non-zero answer only if the reached node carries the terminator label
    f = method(db, "StringDictionaryXBW", "locate")
    rep.visit(f)
    rep.inst(f.loc, "%s: terminator-label test" % f.qn)
    for r in [n for n in f.live_nodes() if n["k"] == "ReturnStmt"]:
        if failure_value(f, r):
            continue
        rep.ob()
        doms = f.cfg.dominating_conditions(f.cfg.position(r))
        ok = False
        for c, pol in doms:
            sc = strip(c) if c else None
            if sc is not None and sc["k"] == "BinaryOperator" and cond_has_call(sc, {"access"}) and \
                    any(x["k"] == "MemberExpr" and x.get("n") == "maxLabel" for x in walk(sc)):
                if (sc["op"] == "!=" and not pol) or (sc["op"] == "==" and pol):
                    ok = True
        if not ok:
            rep.viol("%s#accept-without-terminator" % f.qn, f.nloc(r),
                     "%s returns an ID without checking that the reached node ends a string (a proper prefix of a member would be found)" % f.qn, f.qn)


# ---------------------------------------------------------------------------------------------------
def reaching_defs(f, var_d, use_node):
    """Definitions (assignment / declaration nodes) of local var_d that reach use_node."""
    cfg = f.cfg
    defs = []
    for n in f.live_nodes():
        if n["k"] == "DeclStmt":
            for d in n["decls"]:
                if d.get("d") == var_d:
                    defs.append((n, d.get("init")))
    for lv, w in written_lvalues(f):
        if access_path(f, lv) == ("local", var_d):
            defs.append((w, w.get("rhs") if w.get("op") == "=" else None))
    up = cfg.position(use_node)
    dpos = [(cfg.position(n), n, rhs) for n, rhs in defs]
    dpos = [x for x in dpos if x[0] is not None]
    out = []
    if up is None:
        return out
    for p, n, rhs in dpos:
        others = [q for q, m, _ in dpos if m is not n and q != p]
        if p == up:
            # same CFG element (e.g. c = pattern[--i] used in the same full expression): treat as reaching
            out.append((n, rhs))
        elif cfg.path_exists(p, [up], avoid=others):
            out.append((n, rhs))
    return out


def derives_from_param(f, expr, pi):
    return expr is not None and any(is_ref_to(f, x, "param", pi) for x in walk(expr))


@rule("R-ALPHAGUARD", 3, "FM-index: a byte taken from the pattern indexes occ[] only after the alphabet membership test "
                         "(in the function, or by construction of the argument at every call site)")
def r_alphaguard(db, rep):
    ssa_funcs = [f for f in db.methods_of("SSA") if f.body and any(p["n"] == "pattern" for p in f.params)]
    for f in ssa_funcs:
        pi = next(i for i, p in enumerate(f.params) if p["n"] == "pattern")
        rep.visit(f)
        cfg = f.cfg
        sites = []
        for n in f.live_nodes():
            if n["k"] == "ArraySubscriptExpr" and access_path(f, n["base"]) == ("this", "occ"):
                for x in walk(n["idx"]):
                    if x["k"] == "DeclRefExpr" and x.get("dk") == "local":
                        rds = reaching_defs(f, x["d"], x)
                        if any(derives_from_param(f, rhs, pi) for _, rhs in rds):
                            sites.append((n, x, rds))
        rep.inst(f.loc, "%s: %d occ[] reads indexed by a pattern byte" % (f.qn, len(sites)))
        unguarded = []
        for n, x, rds in sites:
            rep.ob()
            pos = cfg.position(n)
            ok = False
            for c, pol in cfg.dominating_conditions(pos):
                sc = strip(c) if c else None
                if sc is None:
                    continue
                neg = sc["k"] == "UnaryOperator" and sc["op"] == "!"
                core_c = strip(sc["sub"]) if neg else sc
                if core_c["k"] == "ArraySubscriptExpr" and access_path(f, core_c["base"]) == ("this", "alphabet") and \
                        is_ref_to(f, core_c["idx"], "local", x["d"]) and ((neg and not pol) or (not neg and pol)):
                    # no redefinition of the byte between the test and the use
                    cpos = cfg.position(c)
                    dposs = [cfg.position(d) for d, _ in reaching_defs(f, x["d"], x)]
                    if not any(dp is not None and cfg.path_exists(cpos, [dp], avoid=[pos]) and cfg.path_exists(dp, [pos], avoid=[cpos]) for dp in dposs):
                        ok = True
            if not ok:
                unguarded.append(n)
        if not unguarded:
            continue
        # Bytes read inside a loop can be any byte of the pattern: they must be tested here. Only the byte read first
        # (the definition that precedes every loop) may instead be fixed by construction at every call site.
        in_loop = []
        for n in unguarded:
            for x in walk(n["idx"]):
                if x["k"] == "DeclRefExpr" and x.get("dk") == "local":
                    for d, rhs in reaching_defs(f, x["d"], x):
                        if derives_from_param(f, rhs, pi) and any(a["k"] in ("WhileStmt", "ForStmt", "DoStmt") for a in f.ancestors(d)):
                            in_loop.append(n)
        if in_loop:
            n = in_loop[0]
            rep.viol("%s#occ-unchecked-in-loop" % f.qn, f.nloc(n),
                     "%s indexes occ[] with a pattern byte read inside its scan loop that was not tested with alphabet[] "
                     "(any byte of the query can arrive here; a byte above every dictionary byte reads past occ)" % f.qn, f.qn)
            continue
        # not guarded inside: every call site must pass a pattern whose byte at the first-read position is a fixed member of the alphabet
        callers = [(g, c) for g in db.funcs.values() for c in g.calls() if c.get("f") == f.id]
        ok_by_callers = bool(callers)
        why = "no call site"
        for g, c in callers:
            rep.ob()
            a0 = c["args"][pi]
            bp = access_path(g, a0)
            m = c["args"][pi + 1] if len(c["args"]) > pi + 1 else None
            good = False
            if bp is not None and bp[0] == "local" and m is not None:
                sb = rules_serial.SeqBuilder(db, g, "c", nosubst=True)
                want = symx.canon(symx.mk_op("-", sb.sym(m), symx.C(1)))
                for lv, w in written_lvalues(g):
                    s = strip(lv)
                    if s["k"] == "ArraySubscriptExpr" and access_path(g, s["base"]) == bp and w.get("rhs") is not None and \
                            const_value(w["rhs"]) == 1 and symx.canon(sb.sym(s["idx"])) == want and \
                            g.cfg.dominates(g.cfg.position(w), g.cfg.position(c)):
                        good = True
            if not good:
                ok_by_callers = False
                why = "%s (%s) passes a pattern whose last byte is not the separator by construction" % (g.qn, g.nloc(c))
        if not ok_by_callers:
            n = unguarded[0]
            rep.viol("%s#occ-unchecked" % f.qn, f.nloc(n),
                     "%s indexes occ[] with a pattern byte that was not tested with alphabet[] (occ has maxV+1 entries; a byte that "
                     "occurs in no member reads past it); %s" % (f.qn, why), f.qn)


# ---------------------------------------------------------------------------------------------------
def may_return_zero(f):
    """False only if every return value is provably non-zero: a non-zero literal, or a local defined only by
    non-zero literals and increments."""
    rets = [n for n in f.live_nodes() if n["k"] == "ReturnStmt" and n.get("value") is not None]
    if not rets:
        return True
    for r in rets:
        v = r["value"]
        cv = const_value(v)
        if cv is not None:
            if cv == 0:
                return True
            continue
        s = strip(v)
        if s["k"] == "DeclRefExpr" and s.get("dk") == "local":
            ok = True
            seen_def = False
            for n in f.live_nodes():
                if n["k"] == "DeclStmt":
                    for d in n["decls"]:
                        if d.get("d") == s["d"]:
                            seen_def = True
                            if d.get("init") is None or const_value(d["init"]) in (None, 0):
                                ok = False
            for lv, w in written_lvalues(f):
                if access_path(f, lv) == ("local", s["d"]):
                    if w["k"] == "UnaryOperator" and w["op"] == "++":
                        continue
                    if w.get("op") == "=" and const_value(w.get("rhs")) not in (None, 0):
                        continue
                    if w.get("op") == "+=":
                        continue
                    ok = False
            if ok and seen_def:
                continue
            return True
        return True
    return False


@rule("R-NOTFOUND", 5, "belief contradiction: where a caller tests the result of a search helper against NORESULT, the helper "
                       "must be able to return it")
def r_notfound(db, rep):
    for g in sorted(db.funcs.values(), key=lambda x: (x.file, x.line)):
        if g.file.startswith("libcds/") or not g.body:
            continue
        for n in g.live_nodes():
            # x = F(...)   /  T x = F(...)
            tgt, call = None, None
            if is_assignment(n) and n["op"] == "=":
                c = strip(n["rhs"])
                if c["k"] in ("CallExpr", "CXXMemberCallExpr") and c.get("f") in db.funcs:
                    p = access_path(g, n["lhs"])
                    if p and p[0] == "local" and len(p) == 2:
                        tgt, call = p[1], c
            elif n["k"] == "DeclStmt":
                for d in n["decls"]:
                    if d.get("init") is not None and "d" in d:
                        c = strip(d["init"])
                        if c["k"] in ("CallExpr", "CXXMemberCallExpr") and c.get("f") in db.funcs:
                            tgt, call = d["d"], c
            if call is None:
                continue
            callee = db.funcs[call["f"]]
            if callee.file.startswith("libcds/") or not callee.body:
                continue
            rt = callee.types[callee.raw["ret"]]
            if rt["kind"] not in ("int", "uint"):
                continue
            # does g compare the variable with 0 ?
            tests = []
            for c2 in g.live_nodes():
                if c2["k"] == "BinaryOperator" and c2["op"] in ("==", "!="):
                    l, r = strip(c2["lhs"]), strip(c2["rhs"])
                    for a, b in ((l, r), (r, l)):
                        if is_ref_to(g, a, "local", tgt) and const_value(b) == 0 and (strip(b).get("n") == "NORESULT" or strip(b).get("macro") == "NORESULT" or True):
                            # only tests reached by this definition
                            if any(d is n or (n["k"] == "DeclStmt" and d is n) for d, _ in reaching_defs(g, tgt, a)):
                                tests.append(c2)
            if not tests:
                continue
            rep.visit(g)
            rep.visit(callee)
            rep.inst(g.nloc(call), "%s tests the result of %s against 0" % (g.qn, callee.qn))
            rep.ob()
            if not may_return_zero(callee):
                rep.viol("%s#never-NORESULT" % callee.qn, callee.loc,
                         "%s can never return 0 (its result is defined only by non-zero constants and increments), yet %s (%s) "
                         "branches on it being NORESULT: the not-found case is reported as a match" % (callee.qn, g.qn, g.nloc(tests[0])), callee.qn)


@rule("R-SENTINEL", 8, "an all-ones `not found` sentinel is produced at the width of the function's return type: `(T)-1` with T narrower than "
                       "the return type widens to 0x00000000FFFFFFFF, which callers that test against (size_t)-1 / add 1 do not recognise")
def r_sentinel(db, rep):
    for f in sorted(db.funcs.values(), key=lambda x: (x.file, x.line)):
        if not f.body or f.file.startswith("libcds/"):
            continue
        rt = f.types[f.raw["ret"]] if f.raw.get("ret") is not None else None
        if not rt or rt.get("kind") not in ("uint", "int") or not rt.get("bits"):
            continue
        for n in f.live_nodes():
            if n["k"] != "ReturnStmt" or n.get("value") is None:
                continue
            x = n["value"]
            widened = False
            while x["k"] in TRANSPARENT:
                cs = children(x)
                if len(cs) != 1:
                    break
                if x["k"] == "ImplicitCastExpr" and x.get("ck") == "IntegralCast":
                    widened = True
                x = cs[0]
            if x["k"] == "DeclRefExpr" and x.get("dk") in ("global", "staticmember") and x.get("const"):
                # a named constant used as the sentinel
                ct = f.type(x)
                val = const_value(x)
                if ct and ct.get("kind") == "uint" and ct.get("bits") and val is not None and val == (1 << ct["bits"]) - 1:
                    rep.visit(f)
                    rep.inst(f.nloc(n), "%s returns the all-ones constant %s (%s) as %s" % (f.qn, x.get("n"), ct["s"], rt["s"]))
                    rep.ob()
                    if ct["bits"] < rt["bits"]:
                        rep.viol("%s#narrow-sentinel" % f.qn, f.nloc(n),
                                 "%s returns the %d-bit all-ones constant %s from a function returning %s: zero-extended it is not the %d-bit "
                                 "sentinel callers test for" % (f.qn, ct["bits"], x.get("n"), rt["s"], rt["bits"]), f.qn)
                continue
            if x["k"] not in EXPLICIT_CASTS:
                continue
            y = x.get("sub") if x.get("sub") is not None else (children(x) or [None])[0]
            while y is not None and y["k"] in TRANSPARENT and len(children(y)) == 1:
                y = children(y)[0]          # the operand as written, before the conversion clang folds into it
            inner = y.get("cv", y.get("v")) if y is not None else None
            ct = f.type(x)
            if inner is None or inner >= 0 or not ct or ct.get("kind") != "uint":
                continue
            rep.visit(f)
            rep.inst(f.nloc(n), "%s returns (%s)%d as %s" % (f.qn, ct["s"], inner, rt["s"]))
            rep.ob()
            if ct["bits"] < rt["bits"]:
                rep.viol("%s#narrow-sentinel" % f.qn, f.nloc(n),
                         "%s returns (%s)%d from a function returning %s: the value is %d-bit all-ones zero-extended, not the %d-bit sentinel its "
                         "callers (and sibling implementations) use" % (f.qn, ct["s"], inner, rt["s"], ct["bits"], rt["bits"]), f.qn)


def _bound_call_local(f, n):
    """n denotes (a local holding) the result of std::lower_bound / std::upper_bound."""
    s = strip(n)
    if s["k"] in ("CallExpr",) and callee_name(s) in ("lower_bound", "upper_bound", "equal_range"):
        return True
    if s["k"] == "DeclRefExpr" and s.get("dk") == "local":
        ini = single_def_init(f, s["d"])
        if ini is not None:
            return _bound_call_local(f, ini)
    if s["k"] in ("CXXConstructExpr", "CXXTemporaryObjectExpr") and len(s.get("args", [])) == 1:
        return _bound_call_local(f, s["args"][0])
    return False


def _iter_distance(f, n, depth=0):
    """n is `it - v.begin()` (or a local holding it) with `it` a lower_bound / upper_bound result."""
    s = strip(n)
    if depth > 4:
        return False
    if (s["k"] == "CXXOperatorCallExpr" and s.get("opcall") == "-" and len(s.get("args", [])) == 2) or \
            (s["k"] == "BinaryOperator" and s["op"] == "-"):
        a, b = (s["args"][0], s["args"][1]) if s["k"] == "CXXOperatorCallExpr" else (s["lhs"], s["rhs"])
        if _bound_call_local(f, a) and any(x["k"] == "CXXMemberCallExpr" and callee_name(x) in ("begin", "cbegin") for x in walk(b)):
            return True
    if s["k"] == "CallExpr" and callee_name(s) == "distance" and len(s.get("args", [])) == 2 and _bound_call_local(f, s["args"][1]):
        return True
    if s["k"] == "DeclRefExpr" and s.get("dk") == "local":
        ini = single_def_init(f, s["d"])
        if ini is not None:
            return _iter_distance(f, ini, depth + 1)
    return False


@rule("R-PREDINDEX", 1, "the predecessor of a lower_bound / upper_bound position (`pos - 1`) is taken only where the position is known not "
                        "to be the beginning of the range: otherwise a key below the first element turns into index SIZE_MAX")
def r_predindex(db, rep):
    for f in sorted(db.funcs.values(), key=lambda x: (x.file, x.line)):
        if not f.body or f.file.startswith("libcds/") or f.cfg is None:
            continue
        for n in f.live_nodes():
            if n["k"] != "BinaryOperator" or n["op"] != "-" or const_value(n["rhs"]) != 1:
                continue
            if not _iter_distance(f, n["lhs"]):
                continue
            rep.visit(f)
            rep.inst(f.nloc(n), "%s takes the predecessor of a bound-search position" % f.qn)
            rep.ob()
            pv = access_path(f, n["lhs"])
            ok = False
            for c, pol in f.cfg.guards(n):
                if c is None:
                    continue
                sc = strip(c)
                if sc["k"] == "BinaryOperator" and sc["op"] in (">", "!=", ">=", "==", "<", "<="):
                    l, r = access_path(f, sc["lhs"]), access_path(f, sc["rhs"])
                    lv, rv = const_value(sc["lhs"]), const_value(sc["rhs"])
                    if pv is not None and l == pv and rv is not None:
                        if (sc["op"] == ">" and rv >= 0 and pol) or (sc["op"] == "!=" and rv == 0 and pol) or (sc["op"] == ">=" and rv >= 1 and pol) or \
                                (sc["op"] == "==" and rv == 0 and not pol) or (sc["op"] == "<=" and rv == 0 and not pol) or (sc["op"] == "<" and rv == 1 and not pol):
                            ok = True
                    if pv is not None and r == pv and lv is not None:
                        if (sc["op"] == "<" and lv >= 0 and pol) or (sc["op"] == "!=" and lv == 0 and pol):
                            ok = True
                # it != v.begin()
                if sc["k"] in ("CXXOperatorCallExpr", "BinaryOperator") and (sc.get("opcall") in ("!=", "==") or sc.get("op") in ("!=", "==")):
                    op = sc.get("opcall") or sc.get("op")
                    ops = sc.get("args") or [sc.get("lhs"), sc.get("rhs")]
                    if any(o is not None and _bound_call_local(f, o) for o in ops) and \
                            any(x["k"] == "CXXMemberCallExpr" and callee_name(x) in ("begin", "cbegin") for o in ops if o is not None for x in walk(o)):
                        if (op == "!=" and pol) or (op == "==" and not pol):
                            ok = True
            if not ok:
                rep.viol("%s#predecessor-of-begin" % f.qn, f.nloc(n),
                         "%s computes (bound position) - 1 without having excluded position 0: for a key that sorts before the first element "
                         "the result wraps to SIZE_MAX and callers index their vectors with it" % f.qn, f.qn)
