"""Symbolic integer expressions extracted from source, their canonical form, and a small evaluator.

Used to compare *size/count expressions taken from two places in the source* (writer vs reader,
allocation vs save, guard slack vs appended extent).  The evaluator evaluates source expressions
over a grid of symbol values; it never runs libCSD.
"""
import hashlib
import itertools
from core import strip, const_value, access_path, children

ARITH = {"+", "-", "*"}
INTERP = {"+", "-", "*", "/", "%", "<<", ">>", "&", "|", "^", "==", "!=", "<", ">", "<=", ">=", "&&", "||"}


def C(v):
    return ("c", int(v))


def is_const(s):
    return s[0] == "c"


def mk_op(op, a, b):
    if is_const(a) and is_const(b):
        v = eval_op(op, a[1], b[1])
        if v is not None:
            return C(v)
    return ("op", op, a, b)


def eval_op(op, a, b):
    try:
        if op == "+": return a + b
        if op == "-": return a - b
        if op == "*": return a * b
        if op == "/": return None if b == 0 else int(a / b) if (a < 0) != (b < 0) and a % b else a // b
        if op == "%": return None if b == 0 else a - b * (int(a / b) if (a < 0) != (b < 0) and a % b else a // b)
        if op == "<<": return a << b if 0 <= b < 128 else None
        if op == ">>": return a >> b if 0 <= b < 128 else None
        if op == "&": return a & b
        if op == "|": return a | b
        if op == "^": return a ^ b
        if op == "==": return int(a == b)
        if op == "!=": return int(a != b)
        if op == "<": return int(a < b)
        if op == ">": return int(a > b)
        if op == "<=": return int(a <= b)
        if op == ">=": return int(a >= b)
        if op == "&&": return int(bool(a) and bool(b))
        if op == "||": return int(bool(a) or bool(b))
    except Exception:
        return None
    return None


# ---- canonical form ---------------------------------------------------------
def poly(s):
    """Polynomial {monomial(tuple of atom strings): coeff} of a symbolic expression; non-arithmetic
    sub-terms become atoms (canonical strings)."""
    k = s[0]
    if k == "c":
        return {(): s[1]} if s[1] != 0 else {}
    if k == "op" and s[1] in ARITH:
        a, b = poly(s[2]), poly(s[3])
        if s[1] == "+":
            return padd(a, b, 1)
        if s[1] == "-":
            return padd(a, b, -1)
        return pmul(a, b)
    if k == "neg":
        return padd({}, poly(s[1]), -1)
    return {(canon(s),): 1}


def padd(a, b, sign):
    r = dict(a)
    for m, c in b.items():
        r[m] = r.get(m, 0) + sign * c
        if r[m] == 0:
            del r[m]
    return r


def pmul(a, b):
    r = {}
    for m1, c1 in a.items():
        for m2, c2 in b.items():
            m = tuple(sorted(m1 + m2))
            r[m] = r.get(m, 0) + c1 * c2
            if r[m] == 0:
                del r[m]
    return r


def canon(s):
    """Canonical string of a symbolic expression (polynomial normal form at arithmetic nodes)."""
    k = s[0]
    if k == "c":
        return str(s[1])
    if k == "op" and s[1] in ARITH or k == "neg":
        p = poly(s)
        if not p:
            return "0"
        terms = []
        for m in sorted(p):
            c = p[m]
            if not m:
                terms.append(str(c))
            else:
                terms.append(("%d*" % c if c != 1 else "") + "*".join(m))
        return "(" + " + ".join(terms) + ")" if len(terms) > 1 else terms[0]
    if k == "op":
        a, b = canon(s[2]), canon(s[3])
        if s[1] in ("==", "!=", "&&", "||", "&", "|", "^") and b < a:
            a, b = b, a
        return "(%s %s %s)" % (a, s[1], b)
    if k == "slot":
        return "slot%s" % (s[1],)
    if k == "field":
        return "F:" + ".".join(str(x) for x in s[1])
    if k == "param":
        return "P%d" % s[1]
    if k == "local":
        return "L%d" % s[1]
    if k == "call":
        return "%s(%s)" % (s[1], ", ".join(canon(a) for a in s[2]))
    if k == "ite":
        return "ite(%s, %s, %s)" % (canon(s[1]), canon(s[2]), canon(s[3]))
    if k == "not":
        return "!(%s)" % canon(s[1])
    if k == "idx":
        return "%s[%s]" % (canon(s[1]), canon(s[2]))
    if k == "unk":
        return "?%s" % (s[1],)
    if k == "global":
        return "G:%s" % s[1]
    return repr(s)


def atoms(s, out=None):
    """Leaf symbols (slots, fields, params, locals, unknowns, globals) of an expression."""
    if out is None:
        out = set()
    k = s[0]
    if k in ("slot", "field", "param", "local", "unk", "global"):
        out.add(s)
    elif k == "op":
        atoms(s[2], out); atoms(s[3], out)
    elif k in ("neg", "not"):
        atoms(s[1], out)
    elif k == "call":
        for a in s[2]:
            atoms(a, out)
    elif k == "ite":
        atoms(s[1], out); atoms(s[2], out); atoms(s[3], out)
    elif k == "idx":
        atoms(s[1], out); atoms(s[2], out)
    return out


def has_unknown(s):
    return any(a[0] == "unk" for a in atoms(s))


def calls_in(s, out=None):
    if out is None:
        out = set()
    k = s[0]
    if k == "call":
        out.add(s[1])
        for a in s[2]:
            calls_in(a, out)
    elif k == "op":
        calls_in(s[2], out); calls_in(s[3], out)
    elif k in ("neg", "not"):
        calls_in(s[1], out)
    elif k == "ite":
        for x in s[1:]:
            calls_in(x, out)
    elif k == "idx":
        calls_in(s[1], out); calls_in(s[2], out)
    return out


# known pure integer helpers of the code base, interpreted by the evaluator
def _bits(n):
    b = 0
    while n:
        b += 1
        n >>= 1
    return b


KNOWN_FUNCS = {
    "bits": lambda n: _bits(n),
    "pow": lambda a, b: a ** b if 0 <= b < 64 else None,
    "uint_len": lambda e, n: (e * n + 31) // 32,
}


def evaluate(s, val):
    """Evaluate under valuation {atom: int}. Uninterpreted calls get a deterministic pseudo-value from
    (name, argument values). Returns None on division by zero etc."""
    k = s[0]
    if k == "c":
        return s[1]
    if k in ("slot", "field", "param", "local", "unk", "global"):
        return val.get(s)
    if k == "op":
        a = evaluate(s[2], val)
        if a is None:
            return None
        if s[1] == "&&" and not a:
            return 0
        if s[1] == "||" and a:
            return 1
        b = evaluate(s[3], val)
        if b is None:
            return None
        return eval_op(s[1], a, b)
    if k == "neg":
        a = evaluate(s[1], val)
        return None if a is None else -a
    if k == "not":
        a = evaluate(s[1], val)
        return None if a is None else int(not a)
    if k == "ite":
        c = evaluate(s[1], val)
        if c is None:
            return None
        return evaluate(s[2] if c else s[3], val)
    if k == "call":
        args = [evaluate(a, val) for a in s[2]]
        if any(a is None for a in args):
            return None
        if s[1] in KNOWN_FUNCS and len(args) == KNOWN_FUNCS[s[1]].__code__.co_argcount:
            return KNOWN_FUNCS[s[1]](*args)
        h = hashlib.sha256(("%s|%s" % (s[1], args)).encode()).digest()
        return int.from_bytes(h[:3], "big")
    if k == "idx":
        a = evaluate(s[1], val)
        b = evaluate(s[2], val)
        if a is None or b is None:
            return None
        h = hashlib.sha256(("idx|%s|%s" % (a, b)).encode()).digest()
        return int.from_bytes(h[:3], "big")
    return None


GRID = [0, 1, 2, 3, 5, 7, 8, 9, 16, 31, 32, 33, 63, 64, 65, 100, 255, 256, 1000]


def differ_witness(a, b, max_points=4000, where=None):
    """None if a and b canonicalise equally or agree on the whole grid; else a valuation where they differ.
    where: optional predicate on the valuation restricting the domain of the comparison."""
    if canon(a) == canon(b):
        return None
    syms = sorted(atoms(a) | atoms(b), key=repr)
    if len(syms) > 4:
        grid = [1, 2, 7, 32, 33, 100]
    elif len(syms) > 2:
        grid = [0, 1, 2, 3, 7, 8, 31, 32, 33, 64, 100]
    else:
        grid = GRID
    n = 0
    agree = 0
    for vals in itertools.product(grid, repeat=len(syms)):
        n += 1
        if n > max_points:
            break
        val = dict(zip(syms, vals))
        if where is not None and not where(val):
            n -= 1
            continue
        va, vb = evaluate(a, val), evaluate(b, val)
        if va is None or vb is None:
            continue
        if va != vb:
            return {canon(k): v for k, v in val.items()} | {"lhs": va, "rhs": vb}
        agree += 1
    if agree == 0:
        return {"note": "no common defined point"}
    return None
