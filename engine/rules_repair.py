"""R-RPZERO, R-RPWIDTH, R-RPGAP: Re-Pair terminator exclusion, identifier width agreement, gap-pointer encoding."""
from core import *
from rulebase import rule
from rules_serial import SeqBuilder
import symx
from symx import canon, mk_op, C


@rule("R-RPZERO", 3, "no Re-Pair rule can contain the terminator 0: pair frequencies are raised only by Heap::incFreq, behind the "
                     "`left == 0 || right == 0 -> return` guard, and pairs of frequency 1 are purged before every extractMax")
def r_rpzero(db, rep):
    inc = db.fn("Heap::incFreq")
    rep.visit(inc)
    # who writes Trecord::freq
    for f in db.funcs.values():
        if not f.file.startswith("RePair/"):
            continue
        for lv, w in written_lvalues(f):
            s = strip(lv)
            if s["k"] == "MemberExpr" and s.get("mk") == "field" and s["n"] == "freq" and s.get("rec") == "Trecord":
                rep.inst(f.nloc(w), "%s writes Trecord::freq" % f.qn)
                rep.ob()
                raises = (w["k"] == "UnaryOperator" and w["op"] == "++") or w.get("op") == "+=" or \
                         (w.get("op") == "=" and const_value(w.get("rhs")) not in (0, 1))
                if w.get("op") == "=" and const_value(w.get("rhs")) == 1:
                    continue      # a pair seen once: never extracted (purged)
                if raises and f.id != inc.id:
                    rep.viol("%s#raises-freq" % f.qn, f.nloc(w), "%s raises a pair frequency outside Heap::incFreq, bypassing the terminator guard" % f.qn, f.qn)
                if raises and f.id == inc.id:
                    gs = f.cfg.guards(w)
                    zl = zr = False
                    for c, pol in gs:
                        sc = strip(c) if c else None
                        if sc is not None and sc["k"] == "BinaryOperator" and sc["op"] == "==" and not pol and \
                                (const_value(sc["rhs"]) == 0 or const_value(sc["lhs"]) == 0):
                            for x in walk(sc):
                                if x["k"] == "MemberExpr" and x.get("n") == "left":
                                    zl = True
                                if x["k"] == "MemberExpr" and x.get("n") == "right":
                                    zr = True
                    rep.ob()
                    if not (zl and zr):
                        rep.viol("Heap::incFreq#unguarded-increment", f.nloc(w),
                                 "Heap::incFreq increments a pair frequency on a path where %s: a pair touching the terminator can become a rule "
                                 "and strings stop being individually addressable" % (
                                     "neither side was tested against 0" if not (zl or zr) else "only one side of the pair was tested against 0"), f.qn)
    # purge before every extractMax
    for f in db.funcs.values():
        if not f.file.startswith("RePair/"):
            continue
        ex = [n for n in f.calls() if callee_name(n) == "extractMax" and n.get("frec") == "Heap"]
        if not ex:
            continue
        rep.visit(f)
        cfg = f.cfg
        purges = [cfg.position(n) for n in f.calls() if callee_name(n) == "purgeHeap"]
        # prepare() ends with a purge and precedes the loop: calls to functions whose every path purges count as purge points
        for n in f.calls():
            t = db.funcs.get(n.get("f"))
            if t is not None and t.cfg is not None and t.id != f.id:
                tp = [t.cfg.position(x) for x in t.calls() if callee_name(x) == "purgeHeap"]
                if tp and not t.cfg.path_exists(t.cfg.entry, [t.cfg.exit], avoid=tp):
                    purges.append(cfg.position(n))
        purges = [p for p in purges if p is not None]
        for n in ex:
            rep.inst(f.nloc(n), "%s extracts the most frequent pair" % f.qn)
            rep.ob()
            pos = cfg.position(n)
            if cfg.path_exists(pos, [pos], avoid=purges):
                rep.viol("%s#extract-without-purge" % f.qn, f.nloc(n),
                         "%s can reach extractMax again without purgeHeap in between: a pair of frequency 1 may be replaced" % f.qn, f.qn)
            # first extraction: either the caller purged (prepare) or a purge precedes in this function
            callers_ok = True
            if cfg.path_exists(cfg.entry, [pos], avoid=purges):
                # look at callers: the call to f must be dominated by a purging call (prepare)
                callers_ok = False
                for g in db.funcs.values():
                    for c in g.calls():
                        if c.get("f") == f.id:
                            gp = []
                            for x in g.calls():
                                t = db.funcs.get(x.get("f"))
                                if t is not None and t.cfg is not None:
                                    tp = [t.cfg.position(y) for y in t.calls() if callee_name(y) == "purgeHeap"]
                                    if tp and not t.cfg.path_exists(t.cfg.entry, [t.cfg.exit], avoid=tp):
                                        gp.append(g.cfg.position(x))
                            if gp and not g.cfg.path_exists(g.cfg.entry, [g.cfg.position(c)], avoid=gp):
                                callers_ok = True
            rep.ob()
            if not callers_ok:
                rep.viol("%s#first-extract-without-purge" % f.qn, f.nloc(n), "the first extractMax in %s is not preceded by purgeHeap on every path" % f.qn, f.qn)


@rule("R-RPWIDTH", 4, "every structure that stores Re-Pair identifiers is sized with bits(rules + terminals)")
def r_rpwidth(db, rep):
    sites = []
    for f in db.funcs.values():
        if f.file.startswith("libcds/"):
            continue
        for n in f.live_nodes():
            if n["k"] == "CXXNewExpr" and n.get("init") is not None:
                ce = strip(n["init"])
                if ce["k"] != "CXXConstructExpr":
                    continue
                rec = ce.get("rec")
                args = ce.get("args", [])
                warg = None
                if rec == "DAC_VLS" and len(args) >= 3:
                    warg = args[2]
                elif rec == "LogSequence" and len(args) == 2:
                    # only sequences that hold grammar symbols: G in RePair, Cls in HASHRPF
                    par = f.parent(n)
                    tgt = None
                    while par is not None and not is_assignment(par):
                        par = f.parent(par)
                    if par is not None:
                        tp = access_path(f, par["lhs"])
                        tgt = tp[-1] if tp else None
                    if tgt in ("G", "Cls"):
                        warg = args[0] if (f.type(args[0]) or {}).get("kind") in ("int", "uint") else args[1]
                if warg is not None:
                    sites.append((f, n, warg, rec))
    for f in db.fns("RePair::getBits"):
        for n in f.live_nodes():
            if n["k"] == "ReturnStmt" and n.get("value") is not None:
                sites.append((f, n, n["value"], "getBits"))
    for f, n, warg, what in sites:
        rep.visit(f)
        sb = SeqBuilder(db, f, "c", nosubst=True)
        s = sb.sym(warg)
        rep.inst(f.nloc(n), "%s sizes a %s with %s" % (f.qn, what, canon(s)))
        rep.ob()
        ok = False
        if s[0] == "call" and s[1] == "bits" and len(s[2]) >= 1:
            inner = s[2][-1]
            pl = symx.poly(inner)
            names = sorted("".join(m) for m in pl if m)
            if len(pl) == 2 and all(c == 1 for c in pl.values()) and any(x.endswith("rules") for x in names) and any(x.endswith("terminals") for x in names):
                ok = True
        # the width obtained from the grammar object itself: RePair::getBits() is one of the checked sites
        if not ok and s[0] == "call" and s[1] == "getBits":
            w0 = strip(warg)
            ini = single_def_init(f, w0["d"]) if w0["k"] == "DeclRefExpr" and w0.get("dk") == "local" else None
            call = strip(ini) if ini is not None else w0
            if call["k"] == "CXXMemberCallExpr" and call.get("frec") == "RePair" and callee_name(call) == "getBits" and f.qn != "RePair::getBits":
                ok = True
        if not ok:
            rep.viol("%s#width:%s" % (f.qn, what), f.nloc(n),
                     "%s sizes identifier storage with %s instead of bits(rules + terminals): the largest rule identifier may not fit" % (f.qn, canon(s)), f.qn)


@rule("R-RPGAP", 4, "gap pointers: the compressor stores -target-1 in the cell after a replaced pair; every compaction loop that walks "
                    "the compressed array decodes a negative cell v as -(v+1) and advances on every path")
def r_rpgap(db, rep):
    rp = db.fn("IRePair::repair")
    rep.visit(rp)
    sb = SeqBuilder(db, rp, "c", nosubst=True)
    n_w = 0
    for lv, w in written_lvalues(rp):
        s = strip(lv)
        if s["k"] == "ArraySubscriptExpr" and access_path(rp, s["base"]) is not None and access_path(rp, s["base"])[-1] == "C" and w.get("rhs") is not None:
            r = strip(w["rhs"])
            for x in walk(r):
                if x["k"] == "DeclRefExpr" and x.get("dk") == "local":
                    sb.env[("local", x["d"])] = ("local", x["d"])
            pl = symx.poly(sb.sym(r))
            if any(c < 0 for m, c in pl.items() if m):
                n_w += 1
                rep.inst(rp.nloc(w), "IRePair::repair stores gap pointer %s" % canon(sb.sym(r)))
                rep.ob()
                if not (pl.get((), 0) == -1 and len(pl) == 2 and all(c == -1 for m, c in pl.items() if m)):
                    rep.viol("IRePair::repair#gap-encoding", rp.nloc(w), "IRePair::repair stores a gap pointer that is not -target-1 (%s)" % canon(sb.sym(r)), rp.qn)
    if n_w == 0:
        raise AnalysisBroken("no gap-pointer store found in IRePair::repair")
    readers = 0
    for f in db.funcs.values():
        if f.file.startswith("libcds/") or f.file.startswith("RePair/Coder/"):
            continue
        for lv, w in written_lvalues(f):
            if w.get("op") != "=" or w.get("rhs") is None:
                continue
            tgt = access_path(f, lv)
            if not tgt or tgt[0] != "local" or len(tgt) != 2:
                continue
            r = strip(w["rhs"])
            # io = f(arr[io])
            exprs = [r]
            for x in walk(r):       # a hoisted cell value:  const int v = arr[io]; ... io = -(v + 1);
                if x["k"] == "DeclRefExpr" and x.get("dk") == "local":
                    ini = single_def_init(f, x["d"])
                    if ini is not None:
                        exprs.append(ini)
            subs = [x for e in exprs for x in walk(e) if x["k"] == "ArraySubscriptExpr" and access_path(f, x["idx"]) == tgt]
            if not subs or not (r["k"] == "UnaryOperator" and r["op"] == "-" or (r["k"] == "BinaryOperator" and r["op"] == "-")):
                continue
            arr = subs[0]
            at = f.type(arr)
            if not at or at["kind"] != "int":
                continue
            sbf = SeqBuilder(db, f, "c", nosubst=True)
            val = sbf.sym(r)
            cell = sbf.sym(arr)
            pl = symx.poly(val)
            readers += 1
            rep.visit(f)
            rep.inst(f.nloc(w), "%s follows a gap pointer: %s" % (f.qn, canon(val)))
            rep.ob()
            ck = (canon(cell),)
            if not (pl.get((), 0) == -1 and pl.get(ck) == -1 and len(pl) == 2):
                rep.viol("%s#gap-decoding" % f.qn, f.nloc(w),
                         "%s decodes a gap pointer as %s; the compressor stores -target-1, so the target is -(cell+1)" % (f.qn, canon(val)), f.qn)
            # termination: the enclosing loop advances the cursor on every path (a branch that re-tests the loop condition
            # and advances when it holds counts: its other outcome leaves the loop)
            loop = None
            for a in f.ancestors(w):
                if a["k"] in ("WhileStmt", "ForStmt"):
                    loop = a
                    break
            if loop is not None and loop.get("cond") is not None:
                rep.ob()
                cfg = f.cfg
                cpos = cfg.position(loop["cond"])
                advs = [cfg.position(x) for lv2, x in written_lvalues(f) if access_path(f, lv2) == tgt and any(y is x for y in walk(loop["body"]))]
                advs = [a for a in advs if a is not None]
                lc = canon(sbf.sym(loop["cond"]))
                for x in walk(loop["body"]):
                    if x["k"] == "IfStmt" and x.get("cond") is not None and x.get("else") is None and canon(sbf.sym(x["cond"])) == lc:
                        inner = [cfg.position(y) for lv2, y in written_lvalues(f) if access_path(f, lv2) == tgt and any(z is y for z in walk(x["then"]))]
                        if inner:
                            advs.append(cfg.position(x["cond"]))
                if cpos is not None and cfg.path_exists(cpos, [cpos], avoid=advs):
                    rep.viol("%s#gap-loop-stuck" % f.qn, f.nloc(loop),
                             "the compaction loop in %s has a path through its body that does not advance the cursor: it would not terminate" % f.qn, f.qn)
    # five on the pinned tree; a kind that factors its gap skipping into a helper is not seen here, so the anchor is "most of them"
    if readers < 3:
        raise AnalysisBroken("expected >=3 compaction loops following gap pointers, found %d" % readers)


BACKPTR = {"table": "kpos", "pairs": "hpos"}      # container array field -> Trecord field that records the slot


def _arr_role(f, base, depth=0):
    """'table' / 'pairs' if the subscripted array is Thash::table / Tarray::pairs, a local that the function later installs as
    one, or a pointer parameter to which some caller passes such an array."""
    s = strip(base)
    if s["k"] == "DeclRefExpr" and s.get("dk") == "param" and depth < 3:
        pi = s["pi"]
        for g in f.db.funcs.values():
            if not g.body:
                continue
            for c in g.calls():
                if c.get("f") == f.id and pi < len(c.get("args", [])):
                    r = _arr_role(g, c["args"][pi], depth + 1)
                    if r is not None:
                        return r
        return None
    if s["k"] == "MemberExpr" and s.get("n") in BACKPTR:
        return s["n"]
    if s["k"] == "DeclRefExpr" and s.get("dk") == "local":
        d = s["d"]
        for lv, w in written_lvalues(f):
            l = strip(lv)
            if l["k"] == "MemberExpr" and l.get("n") in BACKPTR and w.get("op") == "=" and w.get("rhs") is not None:
                r = strip(w["rhs"])
                if r["k"] == "DeclRefExpr" and r.get("d") == d:
                    return l["n"]
            # or a local alias OF the member (int *tab = H->table) is a reader, not a new table
    return None


@rule("R-BACKPTR", 6, "Re-Pair's pair records carry back-pointers into the hash table and the frequency arrays (kpos, hpos): every store of "
                      "a record id into such a container slot is accompanied by the matching back-pointer update (same id, same slot), in the "
                      "function itself or through its returned slot at every call site; deleteHash/hashRepos/incFreq index the containers by them")
def r_backptr(db, rep):
    for f in sorted(db.funcs.values(), key=lambda x: (x.file, x.line)):
        if not f.file.startswith("RePair/Coder/") or not f.body:
            continue
        sb = SeqBuilder(db, f, "c", nosubst=True)
        for lv, w in written_lvalues(f):
            s = strip(lv)
            if s["k"] != "ArraySubscriptExpr" or w.get("op") != "=" or w.get("rhs") is None:
                continue
            role = _arr_role(f, s["base"])
            if role is None:
                continue
            cv = const_value(w["rhs"])
            if cv is not None and cv < 0:
                continue                      # free / deleted markers
            fld = BACKPTR[role]
            K, V = canon(sb.sym(s["idx"])), canon(sb.sym(w["rhs"]))
            rep.visit(f)
            rep.inst(f.nloc(w), "%s: %s[%s] = %s" % (f.qn, role, K, V))
            rep.ob()
            ok = None
            # slot expression is the back-pointer itself
            for x in walk(s["idx"]):
                if x["k"] == "MemberExpr" and x.get("n") == fld:
                    b = strip(x["base"])
                    if b["k"] == "DeclRefExpr" and b.get("dk") == "local":      # Trecord &r = rec[id];  ... pairs[r.hpos] = id
                        ini = single_def_init(f, b["d"])
                        if ini is not None:
                            b = strip(ini)
                    if b["k"] == "ArraySubscriptExpr" and canon(sb.sym(b["idx"])) == V:
                        ok = "slot is rec[id].%s" % fld
            # paired update in the same function
            if ok is None:
                for lv2, w2 in written_lvalues(f):
                    s2 = strip(lv2)
                    if s2["k"] == "MemberExpr" and s2.get("n") == fld and w2.get("op") == "=" and w2.get("rhs") is not None:
                        b = strip(s2["base"])
                        if b["k"] == "ArraySubscriptExpr" and canon(sb.sym(b["idx"])) == V and canon(sb.sym(w2["rhs"])) == K:
                            comp1 = next((a for a in f.ancestors(w) if a["k"] == "CompoundStmt"), None)
                            comp2 = next((a for a in f.ancestors(w2) if a["k"] == "CompoundStmt"), None)
                            if comp1 is comp2:
                                ok = "paired with rec[id].%s = slot at line %s" % (fld, w2.get("l"))
            # slot returned, callers record it
            if ok is None:
                rets = [n for n in f.live_nodes() if n["k"] == "ReturnStmt" and n.get("value") is not None]
                vparam = strip(w["rhs"])
                if rets and all(canon(sb.sym(r["value"])) == K for r in rets) and vparam["k"] == "DeclRefExpr" and vparam.get("dk") == "param":
                    pi = vparam["pi"]
                    callers = []
                    good = True
                    for g in db.funcs.values():
                        if not g.body:
                            continue
                        for c in g.calls():
                            if c.get("f") == f.id:
                                callers.append((g, c))
                                par = g.parent(c)
                                while par is not None and par["k"] in TRANSPARENT | EXPLICIT_CASTS:
                                    par = g.parent(par)
                                sg = SeqBuilder(db, g, "c", nosubst=True)
                                fine = False
                                if par is not None and is_assignment(par) and par.get("op") == "=":
                                    l = strip(par["lhs"])
                                    if l["k"] == "MemberExpr" and l.get("n") == fld:
                                        b = strip(l["base"])
                                        if b["k"] == "ArraySubscriptExpr" and canon(sg.sym(b["idx"])) == canon(sg.sym(c["args"][pi])):
                                            fine = True
                                if not fine:
                                    good = False
                                    rep.viol("%s#slot-dropped-by-%s" % (f.qn, g.qn), g.nloc(c),
                                             "%s stores a record id into %s[] and returns the slot, but %s does not record it in rec[id].%s" % (f.qn, role, g.qn, fld), g.qn)
                    if callers and good:
                        ok = "slot returned; recorded by %d caller(s)" % len(callers)
                    elif callers:
                        ok = "reported at caller"
            if ok is None:
                rep.viol("%s#%s-without-%s" % (f.qn, role, fld), f.nloc(w),
                         "%s stores record id %s into %s[%s] without setting rec[%s].%s to that slot: later deleteHash / hashRepos / incFreq use the stale "
                         "back-pointer and corrupt or lose pairs (the compressor's output is then no longer the input's grammar)" % (f.qn, V, role, K, V, fld), f.qn)
            else:
                rep.notes.append("%s %s: %s" % (f.nloc(w), role, ok))
