"""R-MIRROR, R-EXTENT, R-PADDING: writer/reader agreement of every serialised image."""
import copy
from core import *
from rulebase import rule
import symx
from symx import C, mk_op, canon

STREAM_OUT = ("basic_ostream", "basic_ofstream")
STREAM_IN = ("basic_istream", "basic_ifstream")


def stream_param(f, kinds):
    for i, p in enumerate(f.params):
        t = f.tstr(p["t"])
        if any(k in t for k in kinds):
            return i
    return None


def is_stream_expr(f, n, sidx):
    n = strip(n)
    return isinstance(n, dict) and n["k"] == "DeclRefExpr" and n.get("dk") == "param" and n.get("pi") == sidx


def nested_key(db, name):
    """Normalise a class / free function name to the key both halves share."""
    parts = name.split("::")
    n, ns = parts[-1], "::".join(parts[:-1])
    for pre in ("save", "load"):
        if n.startswith(pre) and len(n) > 4:
            return "fn:" + ns + "::" + n[len(pre):]
    for suf in ("_save", "_load"):
        if n.endswith(suf):
            return "fn:" + ns + "::" + n[:-len(suf)]
    return None


class Item:
    def __init__(self, kind, node, **kw):
        self.kind = kind      # bytes | nested | if | loop | seek | switch
        self.node = node
        self.__dict__.update(kw)

    def describe(self):
        if self.kind == "bytes":
            return "%s bytes%s" % (canon(self.size), " (scalar)" if self.scalar else "")
        if self.kind == "nested":
            return "nested %s" % self.cls
        if self.kind == "if":
            return "if(%s){%s}else{%s}" % (canon(self.cond), "; ".join(i.describe() for i in self.then),
                                           "; ".join(i.describe() for i in self.els))
        if self.kind == "loop":
            return "loop[%s]{%s}" % (canon(self.bound) if self.bound else "?", "; ".join(i.describe() for i in self.body))
        return self.kind


def bind_single_def_locals(sb, e, pre=None, depth=0):
    """Give every single-definition local mentioned in expression e its defining expression in sb.env (recursively), so that
    `const uint k = n/W+1; f(k)` and `f(n/W+1)` have the same symbolic value. pre(node) may seed env for names first."""
    if depth > 6:
        return
    for x in walk(e):
        if x["k"] == "DeclRefExpr" and x.get("dk") == "local":
            p = ("local", x["d"])
            if p in sb.env:
                continue
            ini = single_def_init(sb.f, x["d"])
            if ini is None:
                continue
            if pre is not None:
                pre(ini)
            bind_single_def_locals(sb, ini, pre, depth + 1)
            sb.env[p] = sb.sym(ini)


def _fixed_vector_count(f, d):
    """The count expression of `std::vector<T> v(count[, value])` for local d, if nothing resizes v later."""
    init = None
    for n in f.live_nodes():
        if n["k"] == "DeclStmt":
            for v in n["decls"]:
                if v.get("d") == d and v.get("init") is not None:
                    init = strip(v["init"])
        elif n["k"] == "CXXMemberCallExpr" and n.get("ext") and n.get("obj") is not None and \
                callee_name(n) in ("push_back", "emplace_back", "pop_back", "resize", "clear", "erase", "insert", "assign", "swap", "reserve", "shrink_to_fit"):
            o = strip(n["obj"])
            if o["k"] == "DeclRefExpr" and o.get("d") == d and callee_name(n) != "reserve":
                return None
    if init is None or init["k"] not in ("CXXConstructExpr", "CXXTemporaryObjectExpr") or init.get("rec") != "std::vector":
        return None
    args = init.get("args", [])
    if len(args) not in (1, 2, 3):
        return None
    t = f.type(args[0])
    if not t or t.get("kind") not in ("int", "uint"):
        return None
    return args[0]


class SeqBuilder:
    UID = 0
    """Walks a function body in source order, tracking symbolic values of locals / object fields in terms
    of *stream slots* (the k-th scalar in the image), and records the ordered tree of stream operations."""

    def __init__(self, db, f, mode, nosubst=False):
        self.db = db
        self.f = f
        self.nosubst = nosubst
        self.allocs = []           # (path, CXXNewExpr node, extent sym at that point)
        self.mode = mode           # 'w' or 'r'
        self.sidx = stream_param(f, STREAM_OUT if mode == "w" else STREAM_IN)
        self.env = {}              # access path -> sym
        self.valmap = {}           # writer: canon(sym of written value) -> slot sym
        self.nslots = 0
        self.unk = 0
        self.slot_prefix = ""
        self.pinned = set()        # local paths that stay symbolic whatever is assigned to them
        self.probe_id = None       # node id: the environment in force at the statement that contains it is kept in probe_env
        self.probe_env = None
        SeqBuilder.UID += 1
        self.uid = SeqBuilder.UID

    def fresh(self, why="?"):
        self.unk += 1
        return ("unk", "%s%d" % (why, self.unk))

    def new_slot(self):
        self.nslots += 1
        return ("slot", "b%d.%s%d" % (self.uid, self.slot_prefix, self.nslots))

    # ---- symbolic evaluation ------------------------------------------------
    def sym(self, n):
        f = self.f
        n = strip(n)
        if not isinstance(n, dict):
            return self.fresh()
        cv = const_value(n)
        if cv is not None:
            return C(cv)
        k = n["k"]
        p = access_path(f, n)
        if p is not None and k in ("DeclRefExpr", "MemberExpr"):
            if p in self.pinned:
                return ("local", p[1])
            if p in self.env:
                return self.env[p]
            if p[0] == "local":
                if len(p) == 2 and self.mode == "c" and getattr(self, "_bind_depth", 0) < 6:
                    # isolated evaluation: a local with a single definition stands for that definition
                    ini = single_def_init(f, p[1])
                    if ini is not None:
                        self._bind_depth = getattr(self, "_bind_depth", 0) + 1
                        try:
                            v = self.sym(ini)
                        finally:
                            self._bind_depth -= 1
                        if not (isinstance(v, tuple) and v and v[0] == "unk"):
                            self.env[p] = v
                            return v
                s = ("local", p[1]) if len(p) == 2 else ("field", p)
            elif p[0] == "param":
                s = ("param", p[1]) if len(p) == 2 else ("field", p)
            elif p[0] == "global":
                s = ("global", p[1])
            else:
                s = ("field", p)
            return self.subst(s)
        if k == "BinaryOperator":
            op = n["op"]
            if op == ",":
                return self.sym(n["rhs"])
            if op in symx.INTERP:
                return self.subst(mk_op(op, self.sym(n["lhs"]), self.sym(n["rhs"])))
            return self.fresh()
        if k == "UnaryOperator":
            op = n["op"]
            if op == "-":
                return self.subst(("neg", self.sym(n["sub"])))
            if op == "!":
                return self.subst(("not", self.sym(n["sub"])))
            if op == "+":
                return self.sym(n["sub"])
            if op == "*":
                return self.subst(("idx", self.sym(n["sub"]), C(0)))
            return self.fresh()
        if k == "ConditionalOperator":
            return self.subst(("ite", self.sym(n["cond"]), self.sym(n["then"]), self.sym(n["else"])))
        if k == "ArraySubscriptExpr":
            return self.subst(("idx", self.sym(n["base"]), self.sym(n["idx"])))
        if k in ("CXXConstructExpr", "CXXTemporaryObjectExpr") and n.get("ext") and len(n.get("args", [])) == 1:
            return self.sym(n["args"][0])          # std:: value wrappers (fpos, ...) are transparent
        if k == "CXXMemberCallExpr" and n.get("ext") and callee_name(n).startswith("operator ") and n.get("obj") is not None:
            return self.sym(n["obj"])              # conversion operators of std:: wrappers
        if k == "CXXMemberCallExpr" and callee_name(n) == "size" and n.get("ext") and n.get("obj") is not None:
            # std::vector<T> v(count[, value]) that is never resized afterwards: v.size() is count
            o = strip(n["obj"])
            if o["k"] == "DeclRefExpr" and o.get("dk") == "local":
                cnt = _fixed_vector_count(f, o["d"])
                if cnt is not None:
                    return self.sym(cnt)
        if k in ("CallExpr", "CXXMemberCallExpr", "CXXOperatorCallExpr"):
            args = []
            if n.get("obj") is not None:
                args.append(self.sym(n["obj"]))
            for a in n.get("args", []):
                args.append(self.sym(a))
            if n.get("opcall") == "[]" and len(args) == 2:
                return self.subst(("idx", args[0], args[1]))
            inl = self.inline_call(n)
            if inl is not None:
                return self.subst(inl)
            return self.subst(("call", callee_name(n) or "?", tuple(args)))
        if k == "CXXThisExpr":
            return ("field", ("this",))
        return self.fresh()

    def inline_call(self, n, depth=0):
        """Symbolic value of a call to a small pure helper of the code base whose body is `return <expr>;`."""
        callee = self.db.funcs.get(n.get("f"))
        if callee is None or callee.body is None or getattr(self, "depth", 0) > 3:
            return None
        body = callee.body.get("c", [])
        if not body or body[-1]["k"] != "ReturnStmt" or body[-1].get("value") is None:
            return None
        obj = n.get("obj")
        same_this = obj is None or strip(obj)["k"] == "CXXThisExpr"
        expr = body[-1]["value"]
        pre = body[:-1]
        # straight-line / if-only prefix that writes nothing but the callee's own locals and by-value parameters
        for st in pre:
            for x in walk(st):
                if x["k"] in ("ReturnStmt", "ForStmt", "WhileStmt", "DoStmt", "CXXForRangeStmt", "SwitchStmt", "GotoStmt", "CXXTryStmt",
                              "CallExpr", "CXXMemberCallExpr", "CXXOperatorCallExpr", "CXXConstructExpr", "LambdaExpr"):
                    if x["k"] in ("CallExpr", "CXXMemberCallExpr") and self.db.funcs.get(x.get("f")) is not None:
                        continue          # nested helper: handled (or left symbolic) by sym()
                    return None
                w = None
                if is_assignment(x):
                    w = x["lhs"]
                elif x["k"] == "UnaryOperator" and x["op"] in ("++", "--"):
                    w = x["sub"]
                if w is not None:
                    wp = access_path(callee, w)
                    if wp is None or len(wp) != 2 or wp[0] not in ("local", "param"):
                        return None
                    if wp[0] == "param" and callee.types[callee.params[wp[1]]["t"]]["kind"] in ("ptr", "ref"):
                        return None
        for x in walk(expr):
            if x["k"] in ("CXXNewExpr", "CXXDeleteExpr") or is_assignment(x) or \
                    (x["k"] == "UnaryOperator" and x["op"] in ("++", "--")):
                return None
        for st in list(pre) + [expr]:
            for x in walk(st):
                if x["k"] == "CXXThisExpr" and not same_this:
                    return None
                if x["k"] in ("CXXNewExpr", "CXXDeleteExpr"):
                    return None
        sub = SeqBuilder(self.db, callee, "c", nosubst=True)
        sub.depth = getattr(self, "depth", 0) + 1
        for i, a in enumerate(n.get("args", [])):
            if i < len(callee.params):
                sub.env[("param", i)] = self.sym(a)
        # fields of `this` keep their meaning in the caller
        for p, v in self.env.items():
            if p[0] == "this":
                sub.env.setdefault(p, v)
        if pre:
            scratch = []
            for st in pre:
                sub.stmt(st, scratch)
            if scratch:
                return None
        return sub.sym(expr)

    def subst(self, s):
        if self.mode == "w" and not self.nosubst:
            c = canon(s)
            if c in self.valmap:
                return self.valmap[c]
        return s

    # ---- stream operation recognition --------------------------------------
    def stream_op(self, n):
        """If call/construct node n is a stream operation, return an Item (and side information)."""
        f = self.f
        k = n["k"]
        if k in ("CallExpr",) and callee_name(n) in ("saveValue", "loadValue") and n.get("args") and \
                is_stream_expr(f, n["args"][0], self.sidx):
            targ = (n.get("targs") or [{}])[0]
            t = f.types[targ["t"]] if "t" in targ else None
            width = (t["bits"] // 8) if t and t["bits"] > 0 else None
            nargs = len(n["args"])
            if callee_name(n) == "saveValue":
                if nargs == 2:
                    return Item("bytes", n, size=C(width), scalar=True, width=width, value=n["args"][1], tname=t["s"], pad=targ.get("pad"))
                return Item("bytes", n, size=mk_op("*", self.sym(n["args"][2]), C(width)), scalar=False, width=width,
                            count=self.sym(n["args"][2]), ptr=n["args"][1], tname=t["s"], pad=targ.get("pad"))
            else:
                if nargs == 1:
                    return Item("bytes", n, size=C(width), scalar=True, width=width, tname=t["s"], pad=targ.get("pad"))
                return Item("bytes", n, size=mk_op("*", self.sym(n["args"][1]), C(width)), scalar=False, width=width,
                            count=self.sym(n["args"][1]), tname=t["s"], pad=targ.get("pad"))
        if k == "CXXMemberCallExpr" and callee_name(n) in ("write", "read") and n.get("obj") is not None and \
                is_stream_expr(f, n["obj"], self.sidx) and len(n.get("args", [])) == 2:
            a0 = strip(n["args"][0])
            sz = self.sym(n["args"][1])
            if a0["k"] == "UnaryOperator" and a0["op"] == "&" and symx.is_const(sz) and sz[1] <= 8 and \
                    (f.type(a0["sub"]) or {}).get("kind") in ("int", "uint", "bool", "enum", "float"):
                return Item("bytes", n, size=sz, scalar=True, width=sz[1], value=a0["sub"], rawtarget=a0["sub"],
                            tname=f.tstr(a0["sub"]), raw=True)
            return Item("bytes", n, size=sz, scalar=False, width=1, count=sz, ptr=n["args"][0], tname="char", raw=True)
        if k == "CXXMemberCallExpr" and callee_name(n) in ("seekg", "seekp", "tellg", "tellp", "peek", "get", "ignore", "unget", "putback") \
                and n.get("obj") is not None and is_stream_expr(f, n["obj"], self.sidx):
            return Item("seek", n, what=callee_name(n))
        # nested: any call / construction that is handed the stream
        args = n.get("args", [])
        if any(is_stream_expr(f, a, self.sidx) for a in args):
            if k in ("CXXConstructExpr", "CXXTemporaryObjectExpr"):
                return Item("nested", n, cls=n.get("rec", "?"), callee=n.get("f"))
            if k == "CXXMemberCallExpr":
                return Item("nested", n, cls=n.get("frec", "?"), callee=n.get("f"), method=callee_name(n),
                            src=access_path(f, n["obj"]) if n.get("obj") is not None else None)
            if k == "CallExpr":
                if n.get("frec"):
                    return Item("nested", n, cls=n["frec"], callee=n.get("f"), method=callee_name(n))
                nk = nested_key(self.db, n.get("fn", "?"))
                return Item("nested", n, cls=nk or n.get("fn", "?"), callee=n.get("f"))
        return None

    # ---- expression scanning (evaluation order approximated by source order) -
    def scan_expr(self, n, items, bind_target=None):
        """Find stream ops inside expression n (pre-order), append items. Returns the Item if n itself
        (after stripping) is a stream op."""
        if not isinstance(n, dict):
            return None
        s = strip(n)
        top = None
        if s["k"] in ("CallExpr", "CXXMemberCallExpr", "CXXConstructExpr", "CXXTemporaryObjectExpr"):
            top = self.stream_op(s)
        if s["k"] == "CXXNewExpr" and s.get("init") is not None:
            ini = strip(s["init"])
            if ini["k"] in ("CXXConstructExpr", "CXXTemporaryObjectExpr"):
                top = self.stream_op(ini)
        if top is not None:
            if top.kind == "bytes" and top.scalar:
                top.slot = self.new_slot()
                if self.mode == "r" and getattr(top, "rawtarget", None) is not None:
                    p = access_path(self.f, top.rawtarget)
                    if p is not None:
                        self.env[p] = top.slot
                        top.target = p
                if self.mode == "w":
                    v = self.sym(top.value)
                    top.valsym = v
                    if not symx.is_const(v):
                        self.valmap.setdefault(canon(v), top.slot)
            items.append(top)
            return top
        for c in children(s):
            self.scan_expr(c, items)
        return None

    def note_alloc(self, p, rhs):
        r = strip(rhs) if isinstance(rhs, dict) else None
        if r is not None and r["k"] == "CXXNewExpr" and r.get("array") and r.get("size") is not None:
            self.allocs.append((p, r, self.sym(r["size"])))

    def assign(self, lhs, sym_or_none, item):
        p = access_path(self.f, lhs)
        if p is None:
            return
        if item is not None and item.kind == "bytes" and item.scalar:
            self.env[p] = item.slot
            item.target = p
        elif item is not None:
            self.env[p] = self.fresh("obj")
            item.target = p
        else:
            self.env[p] = sym_or_none if sym_or_none is not None else self.fresh()

    # ---- statements ---------------------------------------------------------
    def run(self):
        items = []
        for ini in self.f.raw.get("inits", []):
            if isinstance(ini.get("init"), dict) and ini.get("field"):
                it = self.scan_expr(ini["init"], items)
                p = ("this", ini["field"])
                if it is not None and it.kind == "bytes" and it.scalar:
                    self.env[p] = it.slot
                elif it is None:
                    self.env[p] = self.sym(ini["init"])
        if self.f.body:
            self.stmt(self.f.body, items)
        return items

    def written_paths(self, n):
        out = set()
        for x in walk(n):
            if is_assignment(x):
                p = access_path(self.f, x["lhs"])
                if p:
                    out.add(p)
            elif x["k"] == "UnaryOperator" and x["op"] in ("++", "--"):
                p = access_path(self.f, x["sub"])
                if p:
                    out.add(p)
            elif x["k"] == "DeclStmt":
                for d in x["decls"]:
                    if "d" in d:
                        out.add(("local", d["d"]))
        return out

    def terminates(self, n):
        """Statement always leaves the function (return/throw/abort/exit as last statement)."""
        if n is None:
            return False
        k = n["k"]
        if k in ("ReturnStmt", "CXXThrowExpr"):
            return True
        if k == "CompoundStmt":
            cs = n.get("c", [])
            return bool(cs) and self.terminates(cs[-1])
        if k in ("CallExpr",) and callee_name(n) in ("abort", "exit"):
            return True
        if k == "ExprWithCleanups":
            return self.terminates(strip(n))
        return False

    def stmt(self, n, items):
        if n is None:
            return
        k = n["k"]
        f = self.f
        if self.probe_id is not None and self.probe_env is None and k not in ("CompoundStmt", "IfStmt", "ForStmt", "WhileStmt", "DoStmt", "CXXForRangeStmt") \
                and any(x.get("id") == self.probe_id for x in walk(n)):
            self.probe_env = dict(self.env)
        if k == "CompoundStmt":
            cs = n.get("c", [])
            for idx, c in enumerate(cs):
                if c["k"] == "IfStmt" and c.get("else") is None and self.terminates(c.get("then")) and idx + 1 < len(cs) and \
                        (self.mode == "w" or any(x["k"] in ("CallExpr", "CXXMemberCallExpr", "CXXConstructExpr", "CXXNewExpr") for x in walk(c["then"]))):
                    # `if (c) { ...; return; } rest`  ==  `if (c) { ... } else { rest }`
                    syn = dict(c)
                    syn["else"] = {"k": "CompoundStmt", "id": -c["id"], "l": cs[idx + 1].get("l"), "c": cs[idx + 1:]}
                    self.stmt(syn, items)
                    return
                self.stmt(c, items)
            return
        if k == "DeclStmt":
            for d in n["decls"]:
                if d.get("k") != "VarDecl" or "d" not in d:
                    continue
                p = ("local", d["d"])
                ini = d.get("init")
                if ini is None:
                    self.env[p] = self.fresh("uninit")
                    continue
                before = len(items)
                it = self.scan_expr(ini, items)
                if it is not None and it.kind == "bytes" and it.scalar:
                    self.env[p] = it.slot
                    it.target = p
                elif len(items) > before and not all(x.kind == "seek" for x in items[before:]):
                    self.env[p] = self.fresh("obj")
                    if it is not None:
                        it.target = p
                else:
                    self.env[p] = self.sym(ini)
            return
        if k == "IfStmt":
            cond = self.sym(n["cond"])
            self.scan_expr(n["cond"], items)
            base = dict(self.env)
            base_val = dict(self.valmap)
            t_items, e_items = [], []
            self.stmt(n.get("then"), t_items)
            env_t = self.env
            self.env = dict(base)
            self.valmap = dict(base_val)
            self.stmt(n.get("else"), e_items)
            env_e = self.env
            self.valmap = base_val
            t_term = self.terminates(n.get("then"))
            e_term = self.terminates(n.get("else")) if n.get("else") is not None else False
            if t_term and not t_items:
                self.env = env_e           # guard: if (bad) return ...;
                if self.mode == "w" and e_items and not getattr(self, "in_helper", False):
                    # a writer that returns before writing: on that path the image lacks everything that follows
                    items.append(Item("if", n, cond=cond, then=[], els=e_items))
                    return
                items.extend(e_items)
                return
            if e_term and not e_items:
                self.env = env_t
                if not t_items or (self.mode == "r" and n.get("else") is not None):
                    # reader: `if (ok) { read ... } else return NULL;` - the else is the rejecting exit, like `if (!ok) return NULL;`
                    items.extend(t_items)
                else:
                    items.append(Item("if", n, cond=cond, then=t_items, els=[]))
                return
            merged = {}
            for p in set(env_t) | set(env_e):
                a, b = env_t.get(p), env_e.get(p)
                if a is None or b is None:
                    merged[p] = a if b is None else b
                    if p in base:
                        pass
                elif a == b:
                    merged[p] = a
                else:
                    merged[p] = ("ite", cond, a, b)
            self.env = merged
            if t_items or e_items:
                items.append(Item("if", n, cond=cond, then=t_items, els=e_items))
            return
        if k in ("ForStmt", "WhileStmt", "DoStmt", "CXXForRangeStmt"):
            bound = None
            if k == "ForStmt":
                if n.get("init") is not None:
                    self.stmt(n["init"], items)
                bound = self.loop_bound(n)
            elif k == "CXXForRangeStmt":
                rng = n.get("range")
                if rng is not None and rng["k"] == "DeclStmt" and rng["decls"] and rng["decls"][0].get("init"):
                    bound = self.subst(("call", "size", (self.sym(rng["decls"][0]["init"]),)))
            # havoc everything the loop writes
            wp = self.written_paths(n.get("body") or n)
            if n.get("inc") is not None:
                wp |= self.written_paths(n["inc"])
            if n.get("loopvar") is not None:
                wp |= self.written_paths(n["loopvar"])
            for p in wp:
                self.env[p] = self.fresh("loopvar")
            body_items = []
            saved_prefix, saved_n = self.slot_prefix, self.nslots
            self.slot_prefix = saved_prefix + "L%d." % n["id"] if False else saved_prefix + "i."
            self.nslots = 0
            base_val = dict(self.valmap)
            if k == "CXXForRangeStmt" and n.get("loopvar") is not None:
                self.stmt(n["loopvar"], body_items)
            self.stmt(n.get("body"), body_items)
            if n.get("cond") is not None:
                self.scan_expr(n["cond"], body_items)
            self.valmap = base_val
            self.slot_prefix, self.nslots = saved_prefix, saved_n
            for p in wp:
                self.env[p] = self.fresh("afterloop")
            if body_items:
                items.append(Item("loop", n, bound=bound, body=body_items))
            return
        if k == "SwitchStmt":
            cond = self.sym(n["cond"])
            arms = []
            body = n["body"].get("c", []) if n["body"]["k"] == "CompoundStmt" else [n["body"]]
            for st in body:
                s = st
                labels = []
                while s["k"] in ("CaseStmt", "DefaultStmt"):
                    labels.append(s.get("v", "default") if s["k"] == "CaseStmt" else "default")
                    s = s["sub"]
                arm_items = []
                base = dict(self.env)
                self.stmt(s, arm_items)
                self.env = base
                arms.append((labels, arm_items))
            if any(a[1] for a in arms):
                items.append(Item("switch", n, cond=cond, arms=arms))
            return
        if k == "ReturnStmt":
            if n.get("value") is not None:
                self.scan_expr(n["value"], items)
            return
        if k in ("BreakStmt", "ContinueStmt", "NullStmt"):
            return
        if k == "CXXTryStmt":
            cs = n.get("c", [])
            if cs:
                self.stmt(cs[0], items)     # handlers are error paths: not part of the image protocol
            return
        if k in ("LabelStmt", "AttributedStmt", "CXXCatchStmt"):
            for c in children(n):
                self.stmt(c, items)
            return
        # expression statement
        s = strip(n, casts=True)
        if is_assignment(s):
            if s["op"] == "=":
                before = len(items)
                it = self.scan_expr(s["rhs"], items)
                if it is not None:
                    self.assign(s["lhs"], None, it)
                elif len(items) > before:
                    self.assign(s["lhs"], self.fresh("obj"), None)
                else:
                    p = access_path(f, s["lhs"])
                    if p is not None:
                        self.note_alloc(p, s["rhs"])
                    self.assign(s["lhs"], self.sym(s["rhs"]), None)
                # stream ops on the lhs side are not expected
            else:
                self.scan_expr(s["rhs"], items)
                p = access_path(f, s["lhs"])
                if p is not None:
                    old = self.env.get(p, self.sym(s["lhs"]))
                    op = s["op"][:-1]
                    self.env[p] = mk_op(op, old, self.sym(s["rhs"])) if op in symx.INTERP else self.fresh()
            return
        if s["k"] == "UnaryOperator" and s["op"] in ("++", "--"):
            p = access_path(f, s["sub"])
            if p is not None:
                old = self.env.get(p, self.sym(s["sub"]))
                self.env[p] = mk_op("+" if s["op"] == "++" else "-", old, C(1))
            return
        self.scan_expr(n, items)
        # calls that may modify objects whose fields we track: forget fields of objects passed by pointer
        return

    def loop_bound(self, n):
        """for (i = a; i < N; i++) -> N - a ; for (i = a; i <= N; i++) -> N - a + 1"""
        cond = strip(n.get("cond")) if n.get("cond") is not None else None
        if cond is None or cond["k"] != "BinaryOperator" or cond["op"] not in ("<", "<=", "!="):
            return None
        iv = access_path(self.f, cond["lhs"])
        if iv is None:
            return None
        start = self.env.get(iv)
        if start is None or symx.has_unknown(start):
            return None
        hi = self.sym(cond["rhs"])
        b = mk_op("-", hi, start)
        if cond["op"] == "<=":
            b = mk_op("+", b, C(1))
        return b


# ---------------------------------------------------------------------------------------------------
def find_pairs(db):
    """(writer function, reader function, label) for every save/load pair of the code base."""
    pairs = []
    writers = [f for f in db.funcs.values() if stream_param(f, STREAM_OUT) is not None and not f.is_lambda]
    readers = [f for f in db.funcs.values() if stream_param(f, STREAM_IN) is not None and not f.is_lambda]
    rd_by_rec = collections.defaultdict(list)
    for r in readers:
        if r.rec:
            rd_by_rec[r.rec].append(r)
    free_r = {nested_key(db, r.qn): r for r in readers if not r.rec and nested_key(db, r.qn)}
    for w in sorted(writers, key=lambda f: (f.file, f.line)):
        if callee_name({"fn": w.qn}) in ("saveValue",):
            continue
        if w.rec:
            if w.name != "save":
                continue
            cands = [r for r in rd_by_rec.get(w.rec, []) if r.name == "load" or r.is_ctor]
            if w.rec == "RePair":
                if len(w.params) == 2:
                    cands = [r for r in rd_by_rec["RePair"] if r.name == "load"]
                else:
                    cands = [r for r in rd_by_rec["RePair"] if r.name == "loadNoSeq"]
            if w.rec == "Hash":
                cands = [r for rec in ("Hashdh", "HashBdh", "HashBBdh") for r in rd_by_rec.get(rec, []) if r.name == "load"]
            if w.rec == "StringDictionaryXBW":
                pass
            for r in cands:
                pairs.append((w, r))
        else:
            k = nested_key(db, w.qn)
            if k and k in free_r:
                pairs.append((w, free_r[k]))
    return pairs


def is_dispatcher(db, f):
    """A load that only peeks a tag and switches to other loaders."""
    return any(n["k"] == "SwitchStmt" for n in f.nodes()) and f.name == "load" and \
        not any(n["k"] == "CXXNewExpr" for n in f.nodes())


def same_family(db, a, b):
    if a == b:
        return True
    if a in db.records and b in db.records:
        if db.is_subclass(a, b) or db.is_subclass(b, a):
            return True
        # siblings under one abstract root (writer dispatches virtually, reader goes through the root's dispatcher)
        ra = set([a] + db.all_bases(a))
        rb = set([b] + db.all_bases(b))
        return bool(ra & rb)
    return False


def rename(s, m):
    """Rename slots of a symbolic expression through map m (slot sym -> unified slot sym)."""
    k = s[0]
    if k in ("slot", "param", "field", "local", "global"):
        return m.get(s, s)
    if k == "op":
        return ("op", s[1], rename(s[2], m), rename(s[3], m))
    if k in ("neg", "not"):
        return (k, rename(s[1], m))
    if k == "call":
        return ("call", s[1], tuple(rename(a, m) for a in s[2]))
    if k == "ite":
        return ("ite", rename(s[1], m), rename(s[2], m), rename(s[3], m))
    if k == "idx":
        return ("idx", rename(s[1], m), rename(s[2], m))
    return s


def normalise(items):
    """loop with constant trip count over constant-size scalars == one block of bytes."""
    out = []
    for it in items:
        if it.kind == "loop" and it.bound is not None and symx.is_const(it.bound) and it.body and \
                all(b.kind == "bytes" and symx.is_const(b.size) for b in it.body):
            tot = sum(b.size[1] for b in it.body) * it.bound[1]
            out.append(Item("bytes", it.node, size=C(tot), scalar=False, width=1, count=C(tot), tname="bytes", raw=True))
        else:
            out.append(it)
    return out


_FDEF = {}


def replace_subterms(s, cmap):
    """Replace every sub-expression whose canonical form is a key of cmap by the mapped atom (outermost first)."""
    c = canon(s)
    if c in cmap:
        return cmap[c]
    k = s[0]
    if k == "op":
        return ("op", s[1], replace_subterms(s[2], cmap), replace_subterms(s[3], cmap))
    if k in ("neg", "not"):
        return (k, replace_subterms(s[1], cmap))
    if k == "call":
        return ("call", s[1], tuple(replace_subterms(a, cmap) for a in s[2]))
    if k == "ite":
        return ("ite",) + tuple(replace_subterms(x, cmap) for x in s[1:])
    if k == "idx":
        return ("idx", replace_subterms(s[1], cmap), replace_subterms(s[2], cmap))
    return s


def field_defs(db, rec, prefer=()):
    """Fields of rec that every building constructor defines by the same expression over *other fields* (e.g.
    BitSequenceRG::integers := n/W + 1). Values that a constructor stores into a field (a parameter, bs.getLength(), ...)
    are mapped back to that field, preferring the fields in `prefer` (those the writer saves)."""
    key = (id(db), rec, tuple(sorted(prefer)))
    if key in _FDEF:
        return _FDEF[key]
    defs = None
    ctors = [c for c in db.methods_of(rec) if c.is_ctor and c.params and stream_param(c, STREAM_IN) is None]
    for c in ctors:
        b = SeqBuilder(db, c, "c", nosubst=True)
        try:
            b.run()
        except Exception:
            continue
        fields = {p[1]: v for p, v in b.env.items() if p[0] == "this" and len(p) == 2 and not symx.has_unknown(v)}
        cmap = {}
        for fn in sorted(fields, key=lambda x: (x not in prefer, x)):
            v = fields[fn]
            if symx.is_const(v):
                continue
            if v[0] in ("param", "call") or fn in prefer:
                cmap.setdefault(canon(v), ("field", ("this", fn)))
        cur = {}
        for fn, v in fields.items():
            if canon(v) in cmap and cmap[canon(v)] == ("field", ("this", fn)):
                continue            # a source field
            vv = replace_subterms(v, cmap)
            if any(a[0] in ("param", "local") for a in symx.atoms(vv)) or not symx.atoms(vv):
                continue
            cur[fn] = vv
        if defs is None:
            defs = {fn: [v] for fn, v in cur.items()}
        else:
            nd = {}
            for fn, vs in defs.items():
                if fn not in cur:
                    continue            # some constructor gives no usable definition: the field stays opaque
                if all(symx.differ_witness(v, cur[fn]) is not None for v in vs):
                    vs = vs + [cur[fn]]  # constructors disagree: every variant is checked against the reader
                nd[fn] = vs
            defs = nd
    _FDEF[key] = defs or {}
    return _FDEF[key]


class Mirror:
    def __init__(self, db, rep, w, r, report=True):
        self.db, self.rep, self.w, self.r = db, rep, w, r
        self.undecided = 0
        self.compared = 0
        self.mw, self.mr = {}, {}
        self.nuni = 0
        self.report = report
        self.nested = []          # (writer cls, reader cls) pairs seen
        self.matches = []         # (writer item, reader item) for every paired leaf element
        self.failed = False
        self.wvalmap = sequences(db, w, "w")[1].valmap

    def key(self, what):
        return "%s<->%s#%s" % (self.w.qn + ("/%d" % len(self.w.params) if self.w.rec == "RePair" else ""), self.r.qn, what)

    def viol(self, what, wi, ri, msg):
        self.failed = True
        if not self.report:
            return
        wl = self.w.nloc(wi.node) if wi is not None else self.w.loc
        rl = self.r.nloc(ri.node) if ri is not None else self.r.loc
        self.rep.viol(self.key(what), rl, "%s (writer %s, reader %s)" % (msg, wl, rl), self.r.qn,
                      {"writer": self.w.qn, "writer_loc": wl, "reader": self.r.qn, "reader_loc": rl})

    def cmp(self, a, b):
        """None if equal, 'undecided', or a witness."""
        if a is None or b is None:
            return "undecided"
        # writer-side fields that are not image values but are defined from image values by every constructor
        if self.w.rec and any(x[0] == "field" for x in symx.atoms(a)):
            prefer = [c_[len("F:this."):] for c_ in self.wvalmap if c_.startswith("F:this.")]
            defs = field_defs(self.db, self.w.rec, prefer)
            variants = [{}]
            for x in symx.atoms(a):
                if x[0] == "field" and len(x[1]) == 2 and x[1][0] == "this" and x[1][1] in defs:
                    nv = []
                    for d in defs[x[1][1]]:
                        # express the definition through the slots the writer has already emitted for those fields
                        fm = {}
                        for y in symx.atoms(d):
                            if y[0] == "field" and canon(y) in self.wvalmap:
                                fm[y] = self.wvalmap[canon(y)]
                        for v in variants:
                            v2 = dict(v)
                            v2[x] = rename(d, fm)
                            nv.append(v2)
                    variants = nv[:8]
            if len(variants) > 1 or variants[0]:
                worst = None
                for sub in variants:
                    res = self._cmp_plain(rename(a, sub), b)
                    if res is not None and res != "undecided":
                        return res          # one constructor's object is saved differently from what the reader consumes
                    if res == "undecided":
                        worst = res
                return worst
        return self._cmp_plain(a, b)

    def _cmp_plain(self, a, b):
        a, b = rename(a, self.mw), rename(b, self.mr)
        if canon(a) == canon(b):
            return None
        if symx.has_unknown(a) or symx.has_unknown(b):
            return "undecided"
        for x in symx.atoms(a) | symx.atoms(b):
            if x[0] != "slot" or not str(x[1]).startswith("u"):
                # refers to state that is not an (already paired) image value: cannot be related statically
                return "undecided"
        return symx.differ_witness(a, b)

    def splice(self, item, mode):
        """Inline the stream sequence of a nested callee (used when the other half does it inline)."""
        callee = self.db.funcs.get(item.callee)
        if callee is None or callee.body is None:
            return None
        if stream_param(callee, STREAM_OUT if mode == "w" else STREAM_IN) is None:
            return None
        seq, _ = sequences(self.db, callee, mode)
        return seq

    def null_marker_ok(self, wi, ri):
        """writer: if (ptr) ptr->save(out) else saveValue(out, 0)   reader: X::load(in) (tag dispatcher that
        yields NULL for an unknown tag)."""
        if wi.kind != "if" or ri.kind != "nested":
            return False
        for a, b in ((wi.then, wi.els), (wi.els, wi.then)):
            if len(a) == 1 and a[0].kind == "nested" and same_family(self.db, a[0].cls, ri.cls) and \
                    len(b) == 1 and b[0].kind == "bytes" and b[0].scalar:
                callee = self.db.funcs.get(ri.callee)
                if callee is not None and is_dispatcher(self.db, callee):
                    return True
        return False

    def compare(self, ws, rs, path=""):
        rep = self.rep
        ws, rs = normalise(ws), normalise(rs)
        i = j = 0
        n = 0
        while i < len(ws) or j < len(rs):
            wi = ws[i] if i < len(ws) else None
            ri = rs[j] if j < len(rs) else None
            if ri is not None and ri.kind == "seek":
                j += 1
                continue
            if wi is not None and wi.kind == "seek":
                i += 1
                continue
            n += 1
            pos = "%s%d" % (path, n)
            if self.report:
                rep.ob()
            self.compared += 1
            if wi is None or ri is None:
                if wi is None:
                    self.viol(pos + ":extra-read", None, ri, "reader consumes %s that the writer never wrote" % ri.describe())
                else:
                    self.viol(pos + ":missing-read", wi, None, "writer emits %s that the reader never consumes" % wi.describe())
                return
            if wi.kind != ri.kind:
                if self.null_marker_ok(wi, ri):
                    i += 1
                    j += 1
                    continue
                # one half inline, the other through a helper
                if ri.kind == "nested":
                    sp = self.splice(ri, "r")
                    if sp is not None:
                        rs = rs[:j] + sp + rs[j + 1:]
                        n -= 1
                        continue
                if wi.kind == "nested":
                    sp = self.splice(wi, "w")
                    if sp is not None:
                        ws = ws[:i] + sp + ws[i + 1:]
                        n -= 1
                        continue
                # one half moves a pre-encoded buffer (the raw storage of a std::string / std::vector<char> member that other code
                # filled through a stream): its layout is produced elsewhere and is not modelled - undecided from here on
                def _blob(it):
                    pn = getattr(it, "ptr", None)
                    if it.kind != "bytes" or getattr(it, "scalar", False) or pn is None:
                        return False
                    sp_ = strip(pn)
                    while sp_["k"] in EXPLICIT_CASTS:
                        sp_ = strip(sp_["sub"])
                    return sp_["k"] == "CXXMemberCallExpr" and callee_name(sp_) in ("data", "c_str") and \
                        (sp_.get("frec") or "").startswith(("std::basic_string", "std::vector", "std::__cxx11::basic_string"))
                if _blob(wi) or _blob(ri):
                    self.undecided += 1
                    rep.notes.append("%s / %s: element %s is a pre-encoded buffer on one side (%s) and structured on the other: layout not modelled, "
                                     "rest of the pair undecided" % (self.w.qn if hasattr(self, "w") else "writer", self.r.qn if hasattr(self, "r") else "reader",
                                                                     pos, (wi if _blob(wi) else ri).describe()))
                    return
                self.viol(pos + ":kind", wi, ri, "image element %s: writer emits %s where reader expects %s" % (pos, wi.describe(), ri.describe()))
                return
            if wi.kind in ("bytes", "nested"):
                self.matches.append((wi, ri))
            if wi.kind == "bytes":
                wit = self.cmp(wi.size, ri.size)
                if wit == "undecided":
                    self.undecided += 1
                elif wit is not None:
                    self.viol(pos + ":size", wi, ri,
                              "image element %s: writer emits %s bytes (%s) but reader consumes %s bytes (%s); they differ e.g. at %s" % (
                                  pos, canon(rename(wi.size, self.mw)), wi.tname, canon(rename(ri.size, self.mr)), ri.tname, wit))
                    return
                if wi.scalar and ri.scalar:
                    self.nuni += 1
                    u = ("slot", "u%s%d" % (path, self.nuni))
                    self.mw[wi.slot] = u
                    self.mr[ri.slot] = u
                    # same-named field on both sides
                    wv = access_path(self.w, wi.value) if getattr(wi, "value", None) is not None else None
                    rt = getattr(ri, "target", None)
                    if wv is not None and rt is not None and len(wv) == 2 and wv[0] == "this" and len(rt) >= 2 and \
                            isinstance(rt[-1], str) and rt[-1] not in ("[]", "&") and len(rt) == (2 if rt[0] == "this" else 3):
                        if self.report:
                            rep.ob()
                        if wv[-1] != rt[-1] and self.db.field(self.w.rec or "", rt[-1]) is not None and \
                                self.db.field(self.w.rec or "", wv[-1]) is not None:
                            self.viol(pos + ":field", wi, ri, "image element %s: writer stores field %s, reader restores it into field %s" % (
                                pos, wv[-1], rt[-1]))
                            return
            elif wi.kind == "nested":
                if not same_family(self.db, wi.cls, ri.cls):
                    # a local helper on one side (save_child(p, out)) against the inline form on the other: look inside it
                    done = False
                    for side, it in (("w", wi), ("r", ri)):
                        if str(it.cls).startswith("fn:"):
                            sp = self.splice(it, side)
                            if sp is not None and not getattr(it, "spliced", False):
                                for x in sp:
                                    x.spliced = True
                                if side == "w":
                                    ws = ws[:i] + sp + ws[i + 1:]
                                else:
                                    rs = rs[:j] + sp + rs[j + 1:]
                                self.matches.pop()
                                n -= 1
                                done = True
                                break
                    if done:
                        continue
                self.nested.append((wi.cls, ri.cls))
                if not same_family(self.db, wi.cls, ri.cls):
                    self.viol(pos + ":class", wi, ri, "image element %s: writer saves a %s where reader loads a %s" % (pos, wi.cls, ri.cls))
                    return
            elif wi.kind == "if":
                wit = self.cmp(wi.cond, ri.cond)
                if wit == "undecided":
                    self.undecided += 1
                elif wit is not None:
                    wit2 = self.cmp(("not", wi.cond), ri.cond)
                    if wit2 is None:
                        ri = Item("if", ri.node, cond=wi.cond, then=ri.els, els=ri.then)
                    else:
                        self.viol(pos + ":cond", wi, ri, "image element %s: writer branches on %s, reader on %s; they differ e.g. at %s" % (
                            pos, canon(rename(wi.cond, self.mw)), canon(rename(ri.cond, self.mr)), wit))
                        return
                self.compare(wi.then, ri.then, pos + ".t")
                if self.failed:
                    return
                self.compare(wi.els, ri.els, pos + ".e")
                if self.failed:
                    return
            elif wi.kind == "loop":
                wit = self.cmp(wi.bound, ri.bound)
                if wit == "undecided":
                    self.undecided += 1
                elif wit is not None:
                    self.viol(pos + ":bound", wi, ri, "image element %s: writer loops %s times, reader %s times; they differ e.g. at %s" % (
                        pos, canon(rename(wi.bound, self.mw)), canon(rename(ri.bound, self.mr)), wit))
                    return
                self.compare(wi.body, ri.body, pos + ".b")
                if self.failed:
                    return
            elif wi.kind == "switch":
                self.undecided += 1
            i += 1
            j += 1


_SEQ_CACHE = {}


def sequences(db, f, mode):
    k = (id(db), f.id, mode)
    if k not in _SEQ_CACHE:
        b = SeqBuilder(db, f, mode)
        _SEQ_CACHE[k] = (b.run(), b)
    return _SEQ_CACHE[k]


C19_ROOTS = ["cds_static::BitSequenceRG", "cds_static::BitSequenceRRR", "cds_static::BitSequenceSDArray",
             "cds_static::BitSequenceDArray", "cds_static::BitSequence375", "cds_static::WaveletTree",
             "cds_static::WaveletTreeNoptrs"]


def mirror_cone(db, pairs):
    """Classes whose images the dictionaries (and the structures named in C19) actually persist:
    the records instantiated on the build paths of the 13 kinds (rapid type analysis from their
    constructors), the C19 roots, and whatever those nest concretely."""
    ctors = [f for k in db.all_subclasses("StringDictionary") for f in db.methods_of(k) if f.is_ctor]
    _, inst = db.rta(ctors)
    by_wrec = collections.defaultdict(list)
    for w, r in pairs:
        by_wrec[w.rec or nested_key(db, w.qn)].append((w, r))
    allowed = set(inst) | set(C19_ROOTS) | set(db.all_subclasses("StringDictionary"))
    cone, work = set(), list(allowed)
    while work:
        c = work.pop()
        if c in cone:
            continue
        cone.add(c)
        for w, r in by_wrec.get(c, []):
            for seqf, mode in ((w, "w"), (r, "r")):
                seq, _ = sequences(db, seqf, mode)
                st = list(seq)
                while st:
                    it = st.pop()
                    if it.kind == "nested":
                        fam = {it.cls}
                        if it.cls in db.records:
                            # abstract / polymorphic element: the members that can actually be there
                            subs = db.all_subclasses(it.cls)
                            fam |= (subs & allowed)
                            if not db.records[it.cls].get("abstract") or not subs:
                                fam.add(it.cls)
                        for m in fam:
                            if m not in cone:
                                work.append(m)
                    elif it.kind == "if":
                        st.extend(it.then + it.els)
                    elif it.kind == "loop":
                        st.extend(it.body)
                    elif it.kind == "switch":
                        for _, a in it.arms:
                            st.extend(a)
    return cone


@rule("R-MIRROR", 40, "every save/load pair: the reader consumes exactly the elements the writer emits "
                      "(byte width, count expression over earlier image values, nested class, guard and loop structure, field identity)")
def r_mirror(db, rep):
    pairs = [(w, r) for w, r in find_pairs(db) if not is_dispatcher(db, r)]
    cone = mirror_cone(db, pairs)
    total_undecided = 0
    outside = []
    for w, r in pairs:
        wkey = w.rec or nested_key(db, w.qn)
        in_cone = wkey in cone
        ws, _ = sequences(db, w, "w")
        rs, _ = sequences(db, r, "r")
        m = Mirror(db, rep, w, r, report=in_cone)
        m.compare(ws, rs)
        if not in_cone:
            outside.append("%s<->%s: %s" % (w.qn, r.qn, "agree" if not m.failed else "DISAGREE (outside the claimed cone, not reported)"))
            continue
        rep.visit(w)
        rep.visit(r)
        total_undecided += m.undecided
        rep.inst(w.loc, "%s <-> %s (%s): %d elements compared, %d undecided" % (w.qn, r.qn, r.loc, m.compared, m.undecided))
    rep.notes.append("%d element comparisons could not be related statically (sizes depending on state outside the image)" % total_undecided)
    rep.notes.append("pairs outside the cone persisted by the dictionaries / named in C19 (analysed, not claimed): " + "; ".join(outside))
    return pairs


def subst_fields(s, env, keep_unassigned=False):
    """Replace F:this.x atoms by the constructor's final symbolic value of this.x. keep_unassigned: the host is a build step
    of an already constructed object; fields it does not assign keep their identity."""
    k = s[0]
    if k == "field" and len(s[1]) == 2 and s[1][0] == "this":
        v = env.get(s[1])
        if v is None:
            if keep_unassigned:
                return s
            return ("unk", "field-%s-not-fixed-by-constructor" % s[1][1])
        if symx.has_unknown(v) and not all(str(a[1]).startswith("afterloop") for a in symx.atoms(v) if a[0] == "unk"):
            return ("unk", "field-%s-not-fixed-by-constructor" % s[1][1])
        return v
    if k == "op":
        return mk_op(s[1], subst_fields(s[2], env, keep_unassigned), subst_fields(s[3], env, keep_unassigned))
    if k in ("neg", "not"):
        return (k, subst_fields(s[1], env, keep_unassigned))
    if k == "call":
        return ("call", s[1], tuple(subst_fields(a, env, keep_unassigned) for a in s[2]))
    if k == "ite":
        return ("ite", subst_fields(s[1], env, keep_unassigned), subst_fields(s[2], env, keep_unassigned), subst_fields(s[3], env, keep_unassigned))
    if k == "idx":
        return ("idx", subst_fields(s[1], env, keep_unassigned), subst_fields(s[2], env, keep_unassigned))
    return s


def flat_items(items):
    for it in items:
        yield it
        if it.kind == "if":
            yield from flat_items(it.then)
            yield from flat_items(it.els)
        elif it.kind == "loop":
            yield from flat_items(it.body)


@rule("R-EXTENT", 20, "an array field is saved with the element count it was allocated with in every building constructor")
def r_extent(db, rep):
    _extent(db, rep, None)


@rule("R-EXTENT-FM", 2, "R-EXTENT restricted to the FM-index state (class SSA: occ, alphabet, suffix samples): the tables prefix and "
                        "substring search index have the same extent in a built and in a loaded index")
def r_extent_fm(db, rep):
    _extent(db, rep, ("SSA",))


def _witness_where(a, b, pred):
    """A valuation of the free symbols of a and b (small grid) at which pred(value of a, value of b) holds, or None."""
    import itertools
    syms = sorted(symx.atoms(a) | symx.atoms(b), key=repr)
    grid = symx.GRID if len(syms) <= 2 else [0, 1, 2, 7, 31, 32, 33, 64, 100]
    for vals in itertools.islice(itertools.product(grid, repeat=len(syms)), 8000):
        val = dict(zip(syms, vals))
        va, vb = symx.evaluate(a, val), symx.evaluate(b, val)
        if va is None or vb is None:
            continue
        if pred(va, vb):
            w = {canon(k): v for k, v in val.items()}
            w.update({"lhs": va, "rhs": vb})
            return w
    return None


def _extent(db, rep, only):
    pairs = [(w, r) for w, r in find_pairs(db) if not is_dispatcher(db, r) and (only is None or w.rec in only)]
    cone = mirror_cone(db, pairs)
    done = set()
    undecided = 0
    for w, r in pairs:
        if not w.rec or w.rec not in cone or w.id in done:
            continue
        done.add(w.id)
        wb = SeqBuilder(db, w, "w", nosubst=True)
        items = wb.run()
        arrays = []
        for it in flat_items(items):
            if it.kind == "bytes" and not it.scalar and getattr(it, "ptr", None) is not None:
                p = access_path(w, it.ptr)
                if p is not None and len(p) == 2 and p[0] == "this":
                    arrays.append((p, it))
        if not arrays:
            continue
        ctors = [c for c in db.methods_of(w.rec) if c.is_ctor and stream_param(c, STREAM_IN) is None]
        # build steps outside the constructors (SSA::build_index, ...): non-static methods that allocate one of the saved arrays
        for m in db.methods_of(w.rec):
            if m.is_ctor or m.is_dtor or m.static or not m.body or m.name in ("save", "load") or stream_param(m, STREAM_IN) is not None:
                continue
            if any(access_path(m, lv) in [p for p, _ in arrays] and wr.get("rhs") is not None and strip(wr["rhs"])["k"] == "CXXNewExpr"
                   for lv, wr in written_lvalues(m)):
                ctors.append(m)
        for c in ctors:
            cb = SeqBuilder(db, c, "c", nosubst=True)
            cb.run()
            for p, it in arrays:
                for ap, node, ext in cb.allocs:
                    if ap != p:
                        continue
                    rep.visit(c)
                    rep.visit(w)
                    rep.inst(c.nloc(node), "%s: field %s allocated in %s, saved in %s" % (w.rec, p[1], c.qn, w.qn))
                    rep.ob()
                    # compare in bytes (the saved pointer may be cast to another element type)
                    ew = subst_fields(it.size, cb.env, keep_unassigned=not c.is_ctor)
                    at = c.types[node["alloct"]]
                    ea = mk_op("*", ext, C(max(at["bits"] // 8, 1)))
                    if canon(ea) == canon(ew):
                        continue
                    ua = {a for a in symx.atoms(ea) if a[0] == "unk"}
                    uw = {a for a in symx.atoms(ew) if a[0] == "unk"}
                    stable = all(str(a[1]).startswith("afterloop") for a in ua | uw)
                    if (ua or uw) and not (stable and ua == uw):
                        undecided += 1
                        continue
                    if any(a[0] in ("local",) for a in symx.atoms(ew) | symx.atoms(ea)):
                        undecided += 1
                        continue
                    if not c.is_ctor and any(a[0] == "param" for a in symx.atoms(ea)):
                        # a helper that allocates for an extent handed in by its caller (allocateZeroed(bits)): what the parameter
                        # holds is the caller's business, not related here
                        undecided += 1
                        continue
                    # values computed by a loop before the allocation (e.g. a bit total) are the same symbol on both sides
                    wit = symx.differ_witness(ea, ew)
                    if wit is not None and only is None and not c.is_ctor:
                        # arrays allocated by a build step outside the constructors: only an image that is LARGER than the allocation
                        # is a defect by itself (save reads past the array); slack that no query uses (BitSequenceRG::Rs, allocated
                        # by BuildRank with four spare words) is correct code. Constructor allocations are held to equality, as the
                        # loaded object gets exactly the saved extent and the queries are the same for both.
                        wit = _witness_where(ea, ew, lambda a, b: a < b)
                    if wit is not None:
                        rep.viol("%s::%s#%s" % (w.rec, p[1], "ctor%d" % len(c.params)), c.nloc(node),
                                 "%s::%s is allocated with %s bytes in %s but %s writes %s bytes from it "
                                 "(e.g. %s): %s" % (
                                     w.rec, p[1], canon(ea), c.qn, w.qn, canon(ew), wit,
                                     "save reads past the allocation" if wit.get("lhs", 0) < wit.get("rhs", 0) else
                                     "the image (and every object loaded from it) holds fewer elements than the built object, whose queries index the full extent"), c.qn,
                                 {"alloc": canon(ea), "saved": canon(ew), "save_loc": w.nloc(it.node)})
    rep.notes.append("%d allocation/save pairs involve values the rule cannot relate (locals, loop-carried values)" % undecided)


@rule("R-PADDING", 4, "every type moved by saveValue/loadValue is free of padding bytes")
def r_padding(db, rep):
    seen = {}
    for f in db.funcs.values():
        for n in f.calls():
            if callee_name(n) in ("saveValue", "loadValue") and n.get("targs"):
                ta = n["targs"][0]
                if "t" not in ta:
                    continue
                t = f.types[ta["t"]]
                key = t["s"]
                if key in seen:
                    continue
                seen[key] = (f, n, ta)
    for key, (f, n, ta) in sorted(seen.items()):
        rep.inst(f.nloc(n), "serialised element type %s (%d bytes)" % (key, f.types[ta["t"]]["bits"] // 8))
        rep.ob()
        if ta.get("pad"):
            rep.viol("padded:" + key, f.nloc(n), "type %s is written/read as raw bytes but contains padding: the image carries indeterminate bytes" % key, f.qn)


if __name__ == "__main__":
    import sys
    db = DB()
    for qn in sys.argv[1:]:
        for f in db.fns(qn):
            mode = "w" if stream_param(f, STREAM_OUT) is not None else "r"
            seq, b = sequences(db, f, mode)
            print("==", f.qn, f.loc, mode)
            for it in seq:
                print("   ", f.nloc(it.node), it.describe(), getattr(it, "target", ""))


@rule("R-RESAVE", 35, "a loaded object holds every image element in the field its save writes it from "
                      "(otherwise saving a loaded object cannot reproduce the image)")
def r_resave(db, rep):
    _resave(db, rep, False)


@rule("R-RESAVE-SCALAR", 35, "R-RESAVE restricted to scalar header values (counts, sizes, widths): the value read from the image is the value "
                             "the loaded object keeps in that field - a loader that adjusts it afterwards answers from a different geometry "
                             "than the object that was saved")
def r_resave_scalar(db, rep):
    _resave(db, rep, True)


def _resave(db, rep, scalar_only):
    pairs = [(w, r) for w, r in find_pairs(db) if not is_dispatcher(db, r)]
    cone = mirror_cone(db, pairs)
    for w, r in pairs:
        wkey = w.rec or nested_key(db, w.qn)
        if wkey not in cone or not w.rec:
            continue
        ws, _ = sequences(db, w, "w")
        rs, _ = sequences(db, r, "r")
        m = Mirror(db, rep, w, r, report=False)
        m.compare(ws, rs)
        if m.failed:
            continue     # R-MIRROR reports it
        rep.visit(r)
        # non-stream assignments to fields of the created object in the reader
        field_assigns = collections.defaultdict(list)
        for lv, wr in written_lvalues(r):
            p = access_path(r, lv)
            if p is None:
                continue
            if (len(p) == 2 and p[0] == "this") or (len(p) == 3 and p[0] == "local"):
                field_assigns[p[-1]].append((p, wr))
        direct = bool(field_assigns)
        rep.inst(r.loc, "%s restores %d elements of the image written by %s" % (r.qn, len(m.matches), w.qn))
        if not direct:
            continue     # constructor-based loader (elements handed to a constructor): not decidable here
        for wi, ri in m.matches:
            src = None
            if wi.kind == "bytes" and wi.scalar and getattr(wi, "value", None) is not None:
                src = access_path(w, wi.value)
            elif wi.kind == "bytes" and getattr(wi, "ptr", None) is not None:
                src = access_path(w, wi.ptr)
            elif wi.kind == "nested":
                src = getattr(wi, "src", None)
            if src is None or len(src) != 2 or src[0] != "this":
                continue
            F = src[1]
            if db.field(w.rec, F) is None:
                continue
            if scalar_only and not (wi.kind == "bytes" and wi.scalar):
                continue
            rep.ob()
            tgt = getattr(ri, "target", None)
            if tgt is None and getattr(ri, "raw", False) and getattr(ri, "ptr", None) is not None:
                tgt = access_path(r, ri.ptr)        # in.read((char*)field, n): fills the buffer the field points to
            if m.matches and wi is m.matches[0][0] and wi.kind == "bytes" and wi.scalar and const_value(wi.value) is None \
                    and F == "type":
                continue                            # the tag: decided by R-TAGS / R-TAGSELF
            tgt_field = tgt[-1] if tgt is not None and ((len(tgt) == 2 and tgt[0] == "this") or (len(tgt) == 3 and tgt[0] == "local")) else None
            others = [(p, wr) for p, wr in field_assigns.get(F, []) if not any(x is ri.node or strip(x) is ri.node for x in walk(wr))]
            # ignore plain NULL initialisation before the read
            others = [(p, wr) for p, wr in others if not (wr.get("rhs") is not None and const_value(wr["rhs"]) == 0)]
            if tgt_field is None and tgt is not None and len(tgt) == 2 and tgt[0] == "local":
                # element read into a local that is then copied into the field:  T x = load(in); obj->F = x;
                copies = [(p, wr) for p, wr in others if wr.get("op") == "=" and wr.get("rhs") is not None and
                          strip(wr["rhs"])["k"] == "DeclRefExpr" and access_path(r, wr["rhs"]) == tgt and single_def_init(r, tgt[1]) is not None]
                if copies:
                    tgt_field = F
                    others = [(p, wr) for p, wr in others if all(wr is not c[1] for c in copies)]
            if tgt_field == F and not others:
                continue
            if tgt_field == F and getattr(ri, "raw", False):
                continue
            if tgt_field == F and others:
                cfg = r.cfg
                rp = cfg.position(ri.node)
                later = [(p, wr) for p, wr in others if cfg.position(wr) and cfg.path_exists(rp, [cfg.position(wr)])]
                if not later:
                    continue
                rep.viol("%s#%s-overwritten" % (r.qn, F), r.nloc(later[0][1]),
                         "%s reads the image element saved from field %s into that field and then replaces it (%s): "
                         "%s on the loaded object writes something else than what was loaded" % (r.qn, F, r.nloc(later[0][1]), w.qn), r.qn)
            elif tgt_field is None and others:
                rep.viol("%s#%s-rebuilt" % (r.qn, F), r.nloc(others[0][1]),
                         "%s reads the image element that %s writes from field %s into a temporary and fills field %s with a "
                         "different object (%s): %s on the loaded object cannot reproduce the image" % (
                             r.qn, w.qn, F, F, r.nloc(others[0][1]), w.qn), r.qn)


# ---------------------------------------------------------------------------------------------------
DISPATCHERS = ["cds_static::BitSequence::load", "cds_static::Sequence::load", "cds_static::wt_node::load",
               "cds_static::wt_coder::load", "cds_static::Mapper::load", "Hash::load"]


def switch_arms(f):
    """[(case values, [call nodes in the arm])] of the first switch in f."""
    sw = None
    for n in f.nodes():
        if n["k"] == "SwitchStmt":
            sw = n
            break
    if sw is None:
        return None, []
    arms = []
    cur_vals = []
    body = sw["body"].get("c", []) if sw["body"]["k"] == "CompoundStmt" else [sw["body"]]
    for st in body:
        s = st
        while s["k"] in ("CaseStmt", "DefaultStmt"):
            cur_vals.append(s.get("v") if s["k"] == "CaseStmt" else "default")
            s = s["sub"]
        calls = [c for c in walk(s) if c["k"] in ("CallExpr", "CXXMemberCallExpr", "CXXConstructExpr")]
        arms.append((list(cur_vals), calls, s))
        if any(x["k"] in ("ReturnStmt", "BreakStmt") for x in walk(s)):
            cur_vals = []
    return sw, arms


def first_scalar_const(db, w):
    """Constant value of the first scalar a save writes (its tag), or None."""
    b = SeqBuilder(db, w, "w", nosubst=True)
    items = b.run()
    for it in items:
        if it.kind == "bytes" and it.scalar:
            v = getattr(it, "valsym", None)
            if v is None and getattr(it, "value", None) is not None:
                v = b.sym(it.value)
            return (v[1] if v is not None and symx.is_const(v) else None), it
        break
    return None, None


@rule("R-DISPATCH", 5, "tag dispatchers of the persisted class families: every arm sends tag T to the class whose save "
                       "writes T first; every persisted concrete class has an arm; the tag is peeked (read, then sought "
                       "back by exactly its width); loaders in the persisted cone never seek otherwise")
def r_dispatch(db, rep):
    pairs = [(w, r) for w, r in find_pairs(db) if not is_dispatcher(db, r)]
    cone = mirror_cone(db, pairs)
    savers = {w.rec: w for w, r in pairs if w.rec}
    for qn in DISPATCHERS:
        d = db.fn(qn)
        rep.visit(d)
        sw, arms = switch_arms(d)
        if sw is None:
            raise AnalysisBroken("%s has no switch" % qn)
        rep.inst(d.loc, "%s: %d arms" % (qn, len(arms)))
        on_param = access_path(d, sw["cond"]) is not None and access_path(d, sw["cond"])[0] == "param"
        # peek discipline
        if not on_param:
            seq, b = sequences(db, d, "r")
            rep.ob()
            first = seq[0] if seq else None
            seeks = [n for n in d.nodes() if n["k"] == "CXXMemberCallExpr" and callee_name(n) in ("seekg",)]
            tell = [n for n in d.nodes() if n["k"] == "CXXMemberCallExpr" and callee_name(n) in ("tellg",)]
            okpeek = False
            if first is not None and first.kind == "bytes" and first.scalar and len(seeks) == 1 and len(tell) == 1:
                sb = SeqBuilder(db, d, "r")
                sb.run()
                arg = sb.sym(seeks[0]["args"][0])
                # expected: tellg() - width
                c = canon(arg)
                want1 = canon(mk_op("-", ("call", "tellg", (("param", sb.sidx),)), C(first.width)))
                okpeek = (c == want1)
                if len(seeks[0]["args"]) == 2 and const_value(seeks[0]["args"][1]) not in (0, None):
                    okpeek = False     # must be relative to the beginning (std::ios::beg == 0)
            if not okpeek:
                rep.viol(qn + "#peek", d.loc, "%s does not restore the stream position by exactly the width of the tag it peeked" % qn, qn)
        handled = {}
        for vals, calls, s in arms:
            loads = [c for c in calls if callee_name(c) == "load" and c.get("frec")]
            for v in vals:
                if v == "default":
                    continue
                rep.ob()
                if not loads:
                    continue
                cls = loads[0]["frec"]
                handled[cls] = v
                w = savers.get(cls)
                if w is None:
                    continue
                if on_param:
                    continue
                tv, it = first_scalar_const(db, w)
                if tv is None:
                    rep.viol("%s#arm:%s:nonconst" % (qn, cls), w.loc, "%s does not start its image with a constant tag" % w.qn, w.qn)
                elif tv != v:
                    rep.viol("%s#arm:%s" % (qn, cls), d.nloc(loads[0]),
                             "%s sends tag %d to %s::load, but %s writes tag %d" % (qn, v, cls, w.qn, tv), qn)
        # every persisted concrete member of the family has an arm
        fam = db.all_subclasses(d.rec)
        if d.rec == "Hash":
            fam = {"Hashdh", "HashBdh", "HashBBdh"}
        for cls in sorted(fam):
            if cls not in cone or db.records[cls].get("abstract"):
                continue
            if cls not in savers and d.rec != "Hash":
                continue
            rep.ob()
            if cls not in handled:
                rep.viol("%s#missing:%s" % (qn, cls), d.loc,
                         "%s has no arm for %s: an image that nests a %s cannot be reloaded through the family loader" % (qn, cls, cls), qn)
        # fall-through returns NULL
        rep.ob()
        tail = [n for n in d.body["c"] if n["k"] == "ReturnStmt"]
        if not tail or const_value(tail[-1].get("value")) != 0:
            rep.viol(qn + "#fallthrough", d.loc, "%s does not return NULL for an unknown tag" % qn, qn)
    # no other seeking in the persisted cone
    for w, r in pairs:
        wkey = w.rec or nested_key(db, w.qn)
        if wkey not in cone:
            continue
        for f in (w, r):
            for n in f.nodes():
                if n["k"] == "CXXMemberCallExpr" and callee_name(n) in ("seekg", "seekp", "ignore", "putback", "unget") and \
                        n.get("frec", "").startswith("std::"):
                    rep.ob()
                    rep.viol("%s#seek" % f.qn, f.nloc(n), "%s repositions the stream: the image would not be self-delimiting" % f.qn, f.qn)
    rep.ob()


@rule("R-NARROW", 150, "no save narrows persistent state: a scalar written with saveValue<T> from a data member has at least the member's width "
                       "(a value that does not fit T comes back different, even though writer and reader agree on T)")
def r_narrow(db, rep):
    for f in sorted(db.funcs.values(), key=lambda x: (x.file, x.line)):
        if not f.body or f.name != "save":
            continue
        for c in f.calls():
            if callee_name(c) != "saveValue" or len(c.get("args", [])) != 2:
                continue
            a = c["args"][1]
            pt = f.type(a)
            x = a
            while x["k"] in TRANSPARENT:
                cs = children(x)
                if len(cs) != 1:
                    break
                x = cs[0]
            if x["k"] != "MemberExpr" or x.get("mk") != "field":
                continue
            st = f.type(x)
            if not st or not pt or st["kind"] not in ("int", "uint") or pt["kind"] not in ("int", "uint", "bool"):
                continue
            rep.visit(f)
            rep.inst(f.nloc(c), "%s writes %s (%s) as %s" % (f.qn, x["n"], st["s"], pt["s"]))
            rep.ob()
            if (st.get("bits") or 0) > (pt.get("bits") or 0):
                rep.viol("%s#narrow-%s" % (f.qn, x["n"]), f.nloc(c),
                         "%s writes member %s of type %s as %s: values above %d-bit range are truncated in the image and the reloaded object "
                         "differs from the saved one" % (f.qn, x["n"], st["s"], pt["s"], pt.get("bits") or 0), f.qn)


def _range_writes(db, c, path, cb):
    """Writes to the array `path` in constructor c as index ranges [(lo sym, hi sym, node)], or None when some write is not a
    recognisable whole-range write (then coverage is undecided)."""
    out = []
    for lv, w in written_lvalues(c):
        s = strip(lv)
        if s["k"] != "ArraySubscriptExpr" or access_path(c, s["base"]) != path:
            continue
        iv = access_path(c, s["idx"])
        loop = next((a for a in c.ancestors(w) if a["k"] in ("ForStmt", "WhileStmt", "DoStmt")), None)
        if loop is None:
            cv = const_value(s["idx"])
            if cv is None:
                return None
            out.append((C(cv), C(cv + 1), w))
            continue
        if loop["k"] != "ForStmt" or iv is None or loop.get("cond") is None or loop.get("init") is None:
            return None
        cond = strip(loop["cond"])
        if cond["k"] != "BinaryOperator" or cond["op"] not in ("<", "<=") or access_path(c, cond["lhs"]) != iv:
            return None
        ini = loop["init"]
        lo = None
        if ini["k"] == "DeclStmt" and len(ini["decls"]) == 1 and ("local", ini["decls"][0].get("d")) == iv and ini["decls"][0].get("init") is not None:
            lo = ini["decls"][0]["init"]
        elif is_assignment(ini) and ini.get("op") == "=" and access_path(c, ini["lhs"]) == iv:
            lo = ini["rhs"]
        inc = strip(loop.get("inc")) if loop.get("inc") is not None else None
        if lo is None or inc is None or not (inc["k"] == "UnaryOperator" and inc["op"] == "++" and access_path(c, inc["sub"]) == iv):
            return None
        # the store must happen on every iteration (not under a condition) and the loop variable must not be written in the body
        if any(a["k"] in ("IfStmt", "SwitchStmt", "ConditionalOperator") for a in c.ancestors(w) if a is not loop and any(x is a for x in walk(loop["body"]))):
            return None
        if any(access_path(c, lv2) == iv and any(x is w2 for x in walk(loop["body"])) for lv2, w2 in written_lvalues(c)):
            return None
        hi = cb.sym(cond["rhs"])
        if cond["op"] == "<=":
            hi = mk_op("+", hi, C(1))
        out.append((cb.sym(lo), hi, w))
    for n in c.calls():
        nm = callee_name(n)
        args = n.get("args", [])
        if nm in ("memcpy", "memmove", "memset") and len(args) == 3 and resolved_path(c, args[0]) == path:
            out.append((C(0), ("bytes", cb.sym(args[2])), n))
        elif nm in ("fill_n",) and len(args) == 3 and resolved_path(c, args[0]) == path:
            out.append((C(0), cb.sym(args[1]), n))
        elif nm in ("fill", "copy") and len(args) >= 2 and (resolved_path(c, args[0]) == path or resolved_path(c, args[-1 if nm == "copy" else 0]) == path):
            return None        # iterator-pair forms: extent is a pointer difference, not followed
        elif any(resolved_path(c, a) == path for a in args) and nm not in ("memcpy", "memmove", "memset", "fill_n") and \
                not n.get("fconst") and n["k"] in ("CallExpr", "CXXMemberCallExpr") and not (n.get("ext") and nm in ("saveValue",)):
            g = db.funcs.get(n.get("f"))
            if g is None or g.body is None:
                return None    # handed to code that may fill it
            ai = next(i for i, a in enumerate(args) if resolved_path(c, a) == path)
            if ai < len(g.params) and g.raw.get("pw", [False] * (ai + 1))[ai] if isinstance(g.raw.get("pw"), list) and ai < len(g.raw.get("pw")) else True:
                return None
    return out


@rule("R-INITEXTENT", 15, "an array that a building constructor allocates uninitialised (`new T[n]`) and that save writes out is written over "
                         "its whole extent when all the constructor's writes to it are whole-range writes (consecutive loops, memcpy/memset): "
                         "an uncovered tail reaches the image as indeterminate bytes")
def r_initextent(db, rep):
    import itertools
    E = None
    pairs = [(w, r) for w, r in find_pairs(db) if not is_dispatcher(db, r)]
    cone = mirror_cone(db, pairs)
    done = set()
    undecided = 0
    for w, r in pairs:
        if not w.rec or w.rec not in cone or w.id in done:
            continue
        done.add(w.id)
        wb = SeqBuilder(db, w, "w", nosubst=True)
        items = wb.run()
        saved = set()
        for it in flat_items(items):
            if it.kind == "bytes" and not it.scalar and getattr(it, "ptr", None) is not None:
                p = access_path(w, it.ptr)
                if p is not None and len(p) == 2 and p[0] == "this":
                    saved.add(p)
        if not saved:
            continue
        for c in [c for c in db.methods_of(w.rec) if c.is_ctor and stream_param(c, STREAM_IN) is None and c.body]:
            cb = SeqBuilder(db, c, "c", nosubst=True)
            cb.run()
            for ap, node, ext in cb.allocs:
                if ap not in saved or node.get("init") is not None:
                    continue
                at = c.types[node["alloct"]]
                if at["kind"] not in ("int", "uint", "bool"):
                    continue
                # writes elsewhere (methods the constructor calls that store into the field): undecided
                other = False
                for fid in db.closure([c]):
                    g = db.funcs[fid]
                    if g.id == c.id or not g.body:
                        continue
                    for lv, w2 in written_lvalues(g):
                        s2 = strip(lv)
                        if s2["k"] == "ArraySubscriptExpr":
                            bp = access_path(g, s2["base"])
                            if bp is not None and bp[-1] == ap[1]:
                                other = True
                rw = None if other else _range_writes(db, c, ap, cb)
                rep.visit(c)
                rep.inst(c.nloc(node), "%s allocates %s::%s (%s elements); %s" % (
                    c.qn, w.rec, ap[1], canon(ext), "writes not all whole-range: undecided" if rw is None else "%d whole-range write(s)" % len(rw)))
                if rw is None:
                    undecided += 1
                    continue
                rep.ob()
                esz = max(at["bits"] // 8, 1)
                rng = []
                for lo, hi, n in rw:
                    if isinstance(hi, tuple) and hi and hi[0] == "bytes":
                        hi = mk_op("/", hi[1], C(esz))
                    rng.append((lo, hi, n))
                syms = set(symx.atoms(ext))
                for lo, hi, n in rng:
                    syms |= symx.atoms(lo) | symx.atoms(hi)
                if any(a[0] in ("unk", "local") for a in syms):
                    undecided += 1
                    continue
                syms = sorted(syms, key=repr)
                grid = symx.GRID if len(syms) <= 2 else [0, 1, 2, 7, 31, 32, 33, 64, 100]
                for vals in itertools.islice(itertools.product(grid, repeat=len(syms)), 6000):
                    val = dict(zip(syms, vals))
                    ve = symx.evaluate(ext, val)
                    iv = [(symx.evaluate(lo, val), symx.evaluate(hi, val)) for lo, hi, n in rng]
                    if ve is None or any(a is None or b is None for a, b in iv) or ve <= 0 or ve > 10 ** 7:
                        continue
                    covered = 0
                    for a, b in sorted(iv):
                        if a <= covered < b:
                            covered = b
                    if covered < ve:
                        rep.viol("%s#%s-tail-uninitialised" % (c.qn, ap[1]), c.nloc(node),
                                 "%s allocates %s::%s with %s elements but its writes cover only the first %d of %d (e.g. at %s): the rest is "
                                 "indeterminate, and %s writes the whole array to the image" % (
                                     c.qn, w.rec, ap[1], canon(ext), covered, ve, {canon(k): v for k, v in val.items()}, w.qn), c.qn)
                        break
    rep.notes.append("%d allocations whose writes are not all whole-range writes (coverage undecided)" % undecided)


_SAVED_ARR = {}


def saved_array_fields(db):
    """{record: {field names}} of pointer fields that the record's save writes out as arrays."""
    if id(db) in _SAVED_ARR:
        return _SAVED_ARR[id(db)]
    out = {}
    for w, r in find_pairs(db):
        if not w.rec or is_dispatcher(db, r):
            continue
        try:
            items = SeqBuilder(db, w, "w", nosubst=True).run()
        except Exception:
            continue
        for it in flat_items(items):
            if it.kind == "bytes" and not it.scalar and getattr(it, "ptr", None) is not None:
                p = access_path(w, it.ptr)
                if p is not None and len(p) == 2 and p[0] == "this":
                    out.setdefault(w.rec, set()).add(p[1])
    _SAVED_ARR.clear()
    _SAVED_ARR[id(db)] = out
    return out
