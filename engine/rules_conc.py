"""Concurrency rules: R-CV, R-ONCE, R-LOCKSET, R-SLOT, R-JOIN, R-WORKERPURE, R-PARAMFLOW, R-NONDET."""
from core import *
from rulebase import rule
import locks
import effects
from effects import get_effects, fmt_region
from rules_effects import allowed_global, STD_STREAMS

_CTX = {}
BLOCKS = "StringDictionaryHASHRPDACBlocks"
MUTATORS_EXEMPT = effects.ACCESSORS


def ctx(db):
    if id(db) not in _CTX:
        _CTX[id(db)] = locks.LockContext(db)
    return _CTX[id(db)]


def in_scope(f):
    return not f.file.startswith("libcds/")


def is_sync_type(t):
    return bool(t) and (t.get("rec", "").startswith("std::mutex") or t.get("rec", "").startswith("std::condition_variable")
                        or t.get("rec", "") in ("std::thread", "std::unique_lock", "std::lock_guard") or "std::mutex" in t.get("s", "")
                        or "condition_variable" in t.get("s", ""))


def loc_str(l):
    if l is None:
        return "?"
    if l[0] == "F":
        return "%s::%s" % (l[1], l[2])
    if l[0] == "L":
        return "local#%d" % l[2]
    return str(l)


def accesses(db, C, f):
    """(canonical location, 'r'|'w', node) for every access to a field / local / global in f."""
    out = []
    writes = {}
    for lv, w in written_lvalues(f):
        s = strip(lv)
        writes[s.get("id")] = w
        # element stores a[i] = v / *p = v on a container/pointer variable count as writes of that variable's content
        while s["k"] in ("ArraySubscriptExpr", "CXXOperatorCallExpr", "UnaryOperator", "MemberExpr") and s.get("mk") != "field":
            if s["k"] == "ArraySubscriptExpr":
                s = strip(s["base"])
            elif s["k"] == "CXXOperatorCallExpr" and s.get("args"):
                s = strip(s["args"][0])
            elif s["k"] == "UnaryOperator" and s["op"] == "*":
                s = strip(s["sub"])
            else:
                break
            writes[s.get("id")] = w
    for n in f.nodes():
        k = n["k"]
        if k in ("CXXMemberCallExpr", "CXXOperatorCallExpr") and n.get("ext"):
            obj = n.get("obj") if k == "CXXMemberCallExpr" else (n["args"][0] if n.get("args") and n.get("frec") else None)
            if obj is not None and not n.get("fconst") and callee_name(n) not in MUTATORS_EXEMPT:
                so = strip(obj)
                writes.setdefault(so.get("id"), n)
    # an lvalue bound to a reference parameter of a function of the code base is not an access here: the callee's own
    # accesses (analysed in the callee, with the parameter resolved to this location) are
    byref = set()
    for c in f.calls():
        g = db.funcs.get(c.get("f"))
        if g is None or g.body is None or c["k"] not in ("CallExpr", "CXXMemberCallExpr"):
            continue
        for i, a in enumerate(c.get("args", [])):
            if i < len(g.params) and g.types[g.params[i]["t"]].get("kind") == "ref":
                sa = strip(a)
                if sa["k"] in ("DeclRefExpr", "MemberExpr"):
                    byref.add(sa.get("id"))
    for n in f.nodes():
        k = n["k"]
        if k == "MemberExpr" and n.get("mk") == "field" or k == "DeclRefExpr" and n.get("dk") in ("local", "global", "staticlocal", "staticmember"):
            if n.get("id") in byref:
                continue
            p = access_path(f, n)
            if p is None:
                continue
            if k == "MemberExpr" and p[0] == "this" and len(p) > 2:
                continue   # inner component is visited separately
            l = C.canon(f, p[:3] if p[0] == "param" else p[:2])
            if l is None:
                continue
            out.append((l, "w" if n.get("id") in writes else "r", n))
    return out


def pred_reads(db, C, lam):
    """Locations read by a wait predicate through its call closure."""
    S = {}
    clo = db.closure([lam])
    for fid in clo:
        f = db.funcs[fid]
        if not in_scope(f):
            continue
        for l, rw, n in accesses(db, C, f):
            t = f.type(n)
            if is_sync_type(t):
                continue
            if l[0] == "L" and l[1] != locks.outer_id(db, lam):
                continue    # locals of helper functions are private
            if l[0] == "L" and f.is_lambda and _captured_by_value(db, f, l):
                continue    # the predicate's own copy, fixed when the closure was made: nobody can update it
            S.setdefault(l, (f, n))
    return S


def notify_positions(db, C, f, cvloc):
    out = []
    for n in f.calls():
        if callee_name(n) in ("notify_all", "notify_one") and n.get("obj") is not None:
            if C.canon(f, access_path(f, n["obj"])) == cvloc:
                p = f.cfg.position(n)
                if p:
                    out.append(p)
    return out


def followed_by_notify(db, C, f, node, cvloc, depth=0, seen=None):
    """On every path from `node` to the exit of f a notify on cv executes; otherwise every caller of f
    must satisfy the same from its call site. Returns (ok, offending function/site description)."""
    seen = seen or set()
    if (f.id, node.get("id")) in seen or depth > 4:
        return False, "%s (%s)" % (f.qn, f.nloc(node))
    seen.add((f.id, node.get("id")))
    pos = f.cfg.position(node)
    nps = notify_positions(db, C, f, cvloc)
    if nps and pos and not f.cfg.path_exists(pos, [f.cfg.exit], avoid=nps):
        return True, None
    callers = C.callers.get(f.id, [])
    if not callers:
        return False, "%s (%s): no notify on %s after the update on some path" % (f.qn, f.nloc(node), loc_str(cvloc))
    for g, cn in callers:
        ok, why = followed_by_notify(db, C, g, cn, cvloc, depth + 1, seen)
        if not ok:
            return False, why
    return True, None


@rule("R-CV", 1, "condition-variable discipline: every update of state read by a wait predicate happens with the waiter's "
                 "mutex held and is followed by a notify on every path (no lost wake-up)")
def r_cv(db, rep):
    C = ctx(db)
    waits = []
    for f in db.funcs.values():
        if not in_scope(f):
            continue
        for n in f.calls():
            if callee_name(n) in ("wait", "wait_for", "wait_until") and n.get("frec", "").startswith("std::condition_variable"):
                waits.append((f, n))
    for f, n in sorted(waits, key=lambda x: (x[0].file, x[1].get("l", 0))):
        rep.visit(f)
        cvloc = C.canon(f, access_path(f, n["obj"]))
        args = n.get("args", [])
        g = access_path(f, args[0]) if args else None
        M = C.ls(f).guards.get(g[1]) if g and g[0] == "local" else None
        rep.ob()
        lam = None
        for a in args[1:]:
            lam = lam or lambda_of(db, f, a)
        if len(args) < 2 or lam is None:
            rep.viol("%s#wait-without-predicate" % f.qn, f.nloc(n),
                     "%s waits on %s without a predicate: a notification sent before the wait is lost" % (f.qn, loc_str(cvloc)), f.qn)
            continue
        if M is None:
            rep.viol("%s#wait-mutex" % f.qn, f.nloc(n), "cannot identify the mutex of the wait in %s" % f.qn, f.qn)
            continue
        S = pred_reads(db, C, lam)
        rep.inst(f.nloc(n), "%s waits on %s with mutex %s; predicate reads %s" % (
            f.qn, loc_str(cvloc), loc_str(M), ", ".join(sorted(loc_str(l) for l in S))))
        # writers of predicate state anywhere in the analysed program
        for gfn in sorted(db.funcs.values(), key=lambda x: (x.file, x.line)):
            if not in_scope(gfn) or not gfn.cfg:
                continue
            for l, rw, an in accesses(db, C, gfn):
                if rw != "w" or l not in S:
                    continue
                # initialisation of the owner's own fields in its constructor, and declaration of the local, precede any waiter
                if gfn.is_ctor and l[0] == "F" and gfn.rec == l[1]:
                    continue
                rep.visit(gfn)
                rep.ob()
                held = C.held(gfn, an)
                if M not in held:
                    rep.viol("%s#update-of-%s-without-%s" % (gfn.qn, loc_str(l), loc_str(M)), gfn.nloc(an),
                             "%s updates %s, which the wait predicate in %s reads, without holding the waiter's mutex %s on every call path "
                             "(held: %s): a waiter that has evaluated the predicate but not yet blocked misses the following notify" % (
                                 gfn.qn, loc_str(l), f.qn, loc_str(M), ", ".join(sorted(loc_str(h) for h in held)) or "none"), gfn.qn)
                if gfn.id == f.id or gfn.id in {l.id for l in sync_lambdas(db, f)}:
                    continue    # the waiting thread itself, before it waits (also inside a helper closure it calls)
                rep.ob()
                ok, why = followed_by_notify(db, C, gfn, an, cvloc)
                if not ok:
                    rep.viol("%s#update-of-%s-without-notify" % (gfn.qn, loc_str(l)), gfn.nloc(an),
                             "update of %s in %s is not followed by a notify on %s on every path: %s" % (
                                 loc_str(l), gfn.qn, loc_str(cvloc), why), gfn.qn)


@rule("R-ONCE", 1, "a queued task is removed only by Worker::run, under the shared mutex held since the non-empty test, and is "
                   "invoked exactly once, outside the lock; the worker thread starts only after the worker is fully constructed")
def r_once(db, rep):
    C = ctx(db)
    run = db.fn("Worker::run")
    # the removing operation of the queue: the WorkerQueue method that takes an element off q (pop / try_pop / ...)
    qloc = ("F", "WorkerQueue", "q")
    removers = [m for m in db.methods_of("WorkerQueue") if m.body and any(
        x.get("ext") and callee_name(x) in ("pop_front", "pop_back", "erase") and x.get("obj") is not None and
        C.canon(m, access_path(m, x["obj"])) == qloc for x in m.calls())]
    if not removers:
        # another container (a hand-written ring buffer, ...): the method called pop / try_pop
        removers = [m for m in db.methods_of("WorkerQueue") if m.body and m.name in ("pop", "try_pop", "take")]
    if len(removers) != 1:
        raise AnalysisBroken("WorkerQueue: expected exactly one method that removes a task from q, found %d" % len(removers))
    pop = removers[0]
    # check-and-pop in one: the removal inside the method is itself dominated by a non-empty test of q
    self_checked = False
    if pop.cfg is not None:
        for x in pop.calls():
            if x.get("ext") and callee_name(x) in ("pop_front", "pop_back", "erase"):
                for c0, pol0 in pop.cfg.guards(x):
                    sc0 = strip(c0) if c0 is not None else None
                    if sc0 is not None and sc0["k"] == "CXXMemberCallExpr" and callee_name(sc0) == "empty" and pol0 is False:
                        self_checked = True
    out_param = next((i for i, p0 in enumerate(pop.params) if pop.types[p0["t"]].get("kind") == "ref"), None)
    rep.visit(run)
    cfg = run.cfg
    # (6) who removes from q
    for f in db.funcs.values():
        if not in_scope(f):
            continue
        for n in f.calls():
            if n.get("ext") and callee_name(n) in ("pop_front", "pop_back", "clear", "erase", "swap") and n.get("obj") is not None:
                if C.canon(f, access_path(f, n["obj"])) == qloc:
                    rep.ob()
                    if f.id != pop.id:
                        rep.viol("%s#removes-from-queue" % f.qn, f.nloc(n), "%s removes tasks from the queue; only WorkerQueue::pop may" % f.qn, f.qn)
    pops = [(f, n) for f in db.funcs.values() if in_scope(f) for n in f.calls() if n.get("f") == pop.id]
    in_pred = [(f, n) for f, n in pops if f.is_lambda and locks.outer_id(db, f) == run.id]
    if in_pred:
        rep.notes.append("Worker::run takes the task inside a closure (%s): which paths invoke it is not followed through the closure "
                         "(undecided)" % ", ".join(f.nloc(n) for f, n in in_pred))
    pops = [(f, n) for f, n in pops if (f, n) not in in_pred]
    for f, n in pops:
        rep.ob()
        if f.id != run.id:
            rep.viol("%s#calls-pop" % f.qn, f.nloc(n), "%s calls WorkerQueue::pop; only Worker::run may (a task popped elsewhere is lost or run twice)" % f.qn, f.qn)
    mine = [n for f, n in pops if f.id == run.id]
    rep.inst(run.loc, "Worker::run: %d pop site(s)" % len(mine))
    M = ("F", "WorkerPool", "shared_mutex")
    ls = C.ls(run)
    for n in mine:
        pos = cfg.position(n)
        rep.ob()
        if M not in ls.held_at(n):
            rep.viol("Worker::run#pop-without-lock", run.nloc(n), "Worker::run pops a task without holding %s: two workers can take the same task" % loc_str(M), run.qn)
        # dominated by queue.empty() == false
        doms = cfg.dominating_conditions(pos)
        empties = [(c, pol) for c, pol in doms if c is not None and any(
            x["k"] == "CXXMemberCallExpr" and callee_name(x) == "empty" and x.get("frec") == "WorkerQueue" for x in walk(c))]
        rep.ob()
        chk = None
        for c, pol in empties:
            sc = strip(c)
            neg = sc["k"] == "UnaryOperator" and sc["op"] == "!"
            if (pol is False and not neg) or (pol is True and neg):
                if sc["k"] in ("CXXMemberCallExpr", "UnaryOperator"):
                    chk = c
        if chk is None and self_checked:
            pass        # the queue's own check-and-pop
        elif chk is None:
            rep.viol("Worker::run#pop-unchecked", run.nloc(n), "Worker::run pops without a dominating `!queue.empty()` test: pop on an empty deque", run.qn)
        else:
            # the mutex is not released between the test and the pop
            cpos = cfg.position(chk)
            rels = [p for p, evs in ls.events.items() if any(k == "rel" for k, d in evs)]
            for x in run.calls():
                if callee_name(x) == "wait" and x.get("frec", "").startswith("std::condition_variable"):
                    rels.append(cfg.position(x))
            rep.ob()
            for r in rels:
                if r is None:
                    continue
                if cfg.path_exists(cpos, [r], avoid=[pos]) and cfg.path_exists(r, [pos], avoid=[cpos]):
                    rep.viol("Worker::run#lock-released-before-pop", run.nloc(n),
                             "the shared mutex can be released between the non-empty test and the pop in Worker::run", run.qn)
                    break
        # invoked exactly once afterwards, outside the lock
        decl = None
        for d in run.nodes():
            if d["k"] == "DeclStmt":
                for v in d["decls"]:
                    if v.get("init") is not None and any(x is n for x in walk(v["init"])):
                        decl = v
            elif (is_assignment(d) or (d["k"] == "CXXOperatorCallExpr" and d.get("opcall") == "=")) and any(x is n for x in walk(d)):
                tgtn = d["lhs"] if is_assignment(d) else (d["args"][0] if d.get("args") else None)
                tp = access_path(run, tgtn) if tgtn is not None else None
                if tp and tp[0] == "local" and len(tp) == 2:
                    decl = {"d": tp[1]}
        failed_side = []
        if decl is None and out_param is not None and out_param < len(n.get("args", [])):
            # bool try_pop(task&): the variable handed in receives the task; the paths on which the call returned false hold none
            tp = access_path(run, n["args"][out_param])
            if tp and tp[0] == "local" and len(tp) == 2:
                decl = {"d": tp[1]}
                for y in run.nodes():
                    py = cfg.position(y)
                    if py is not None and any(strip(c1) is n and pol1 is False for c1, pol1 in cfg.guards(y) if c1 is not None):
                        failed_side.append(py)
        rep.ob()
        invs = []
        if decl is not None:
            for x in run.calls():
                if x["k"] == "CXXOperatorCallExpr" and x.get("opcall") == "()" and x.get("args"):
                    p = access_path(run, x["args"][0])
                    if p == ("local", decl["d"]):
                        invs.append(x)
        if decl is None or not invs:
            rep.viol("Worker::run#task-not-invoked", run.nloc(n), "the task popped in Worker::run is never invoked", run.qn)
            continue
        ipos = [cfg.position(x) for x in invs]
        if cfg.path_exists(pos, [cfg.exit, pos], avoid=ipos + failed_side):
            rep.viol("Worker::run#task-skipped", run.nloc(n), "some path from the pop to the next iteration / exit of Worker::run does not invoke the task", run.qn)
        rep.ob()
        for x, xp in zip(invs, ipos):
            others = [p for p in ipos]
            if cfg.path_exists(xp, ipos, avoid=[pos]):
                rep.viol("Worker::run#task-twice", run.nloc(x), "a popped task can be invoked twice in Worker::run", run.qn)
            rep.ob()
            if M in ls.held_at(x):
                rep.viol("Worker::run#task-under-lock", run.nloc(x), "Worker::run invokes the task while holding %s (serialises all workers; a task that adds a task deadlocks)" % loc_str(M), run.qn)
    # (7) thread start is the last action of the constructor; workers are heap allocated
    wc = [c for c in db.methods_of("Worker") if c.is_ctor]
    for c in wc:
        rep.visit(c)
        rep.ob()
        body = c.body.get("c", []) if c.body else []
        starts = [n for n in c.calls() if callee_name(n) == "start" or (n["k"] == "CXXConstructExpr" and n.get("rec") == "std::thread") or
                  (callee_name(n) in ("make_unique",) and n.get("targs") and c.types[n["targs"][0].get("t", 0)].get("rec") == "std::thread")]
        if starts:
            last = body[-1] if body else None
            if last is None or not any(x is starts[-1] for x in walk(last)):
                rep.viol("Worker::Worker#start-not-last", c.nloc(starts[-1]), "the worker thread is started before the Worker constructor has finished initialising the object", c.qn)
    rep.ob()
    wf = db.field("WorkerPool", "workers")
    if wf is not None:
        ts = wf[2][wf[1]["t"]]["s"]
        if "unique_ptr" not in ts and "*" not in ts:
            rep.viol("WorkerPool::workers#by-value", "parallel/Worker.hpp:%d" % wf[1]["l"],
                     "workers are stored by value: growing the vector moves a Worker while its thread uses `this`", "WorkerPool")


_ROLES = {}


def roles(db):
    if id(db) not in _ROLES:
        _ROLES[id(db)] = _roles(db)
    return _ROLES[id(db)]


def _roles(db):
    run = db.fn("Worker::run")
    wclo = set(db.closure([run]))
    # tasks: every lambda passed to WorkerPool::add_task
    add = db.fn("WorkerPool::add_task")
    tasks = []
    for f in db.funcs.values():
        if not in_scope(f):
            continue
        for n in f.calls():
            if n.get("f") == add.id:
                for a in n.get("args", []):
                    t = lambda_of(db, f, a)
                    if t is not None:
                        tasks.append(t)
    tclo = set(db.closure(tasks))
    return run, tasks, wclo | tclo


def _captured_by_value(db, lam, l):
    outer = db.funcs.get(l[1])
    if outer is None:
        return False
    ln = next((x for x in outer.nodes() if x["k"] == "LambdaExpr" and x.get("lambda") == lam.id), None)
    if ln is None:
        return False
    cap = next((cp for cp in ln.get("captures", []) if cp.get("d") == l[2]), None)
    return cap is not None and not cap.get("byref")


def _fresh_stable_slot(db, lam, l):
    """l = ("L", outer function id, decl id): a pointer local of the enclosing function, captured by value by lam, whose only
    definition is the address of the element just appended to a std::deque / std::list."""
    outer = db.funcs.get(l[1])
    if outer is None:
        return False
    ln = next((x for x in outer.nodes() if x["k"] == "LambdaExpr" and x.get("lambda") == lam.id), None)
    if ln is None:
        return False
    cap = next((cp for cp in ln.get("captures", []) if cp.get("d") == l[2]), None)
    if cap is None or cap.get("byref"):
        return False
    ini = single_def_init(outer, l[2])
    if ini is None:
        return False
    si = strip(ini)
    if si["k"] != "UnaryOperator" or si["op"] != "&":
        return False
    call = strip(si["sub"])
    if call["k"] != "CXXMemberCallExpr" or callee_name(call) not in ("emplace_back", "emplace_front"):
        return False
    return (call.get("frec") or "").startswith(("std::deque", "std::list", "std::forward_list"))


@rule("R-LOCKSET", 2, "every location shared between the producer and the workers (pool state, and everything a queued task "
                      "shares with the building constructor) is accessed under one common lock")
def r_lockset(db, rep):
    C = ctx(db)
    run, tasks, worker_funcs = roles(db)
    bctor = [c for c in db.methods_of(BLOCKS) if c.is_ctor and any(x["k"] == "LambdaExpr" for x in c.nodes())]
    scope = [f for f in db.funcs.values() if f.file == "parallel/Worker.hpp"] + bctor + \
            [l for c in bctor for l in db.lambdas_of.get(c.id, [])]
    # file-local helpers the building constructor calls (and their lambdas)
    for c in bctor:
        for fid in db.closure([c]):
            h = db.funcs[fid]
            if h.file == c.file and h.rec is None and not h.is_lambda and h not in scope and h.cfg is not None:
                scope.append(h)
                scope.extend(db.lambdas_of.get(h.id, []))
    join_nodes = {}
    for c in bctor:
        for n in sync_nodes(db, c, "join"):
            join_nodes[c.id] = n
    acc = collections.defaultdict(list)
    for f in scope:
        if not f.cfg:
            continue
        role = set()
        if f.id in worker_funcs:
            role.add("worker")
        # producer: reachable without going through Worker::run / tasks
        if f.id not in worker_funcs or f.id in (C.callers and [x for x in []]):
            role.add("producer")
        callers = C.callers.get(f.id, [])
        if f.id in worker_funcs and any(g.id not in worker_funcs for g, _ in callers):
            role.add("producer")
        for l, rw, n in accesses(db, C, f):
            t = f.type(n)
            if is_sync_type(t):
                continue
            if l[0] == "L" and not any(l[1] == c.id for c in bctor):
                continue    # private locals
            if l[0] == "F" and l[1] not in ("WorkerQueue", "Worker", "WorkerPool", BLOCKS, "StringDictionary"):
                continue
            # exemptions: the owner's constructor (before any thread can see the object) ...
            if f.is_ctor and l[0] == "F" and f.rec == l[1] and l[1] in ("WorkerQueue", "Worker", "WorkerPool"):
                continue
            # ... and, in the building constructor, everything after the join
            jn = join_nodes.get(locks.outer_id(db, f))
            if jn is not None and not f.is_lambda and f.id == locks.outer_id(db, f):
                if f.cfg.dominates(f.cfg.position(jn), f.cfg.position(n)) and f.cfg.position(jn) != f.cfg.position(n):
                    continue
            # ownership hand-off: a pointer the producer takes to an element it has just appended to a node-based container
            # (std::deque / std::list: growing never moves existing elements) and that the task captures *by value* designates a
            # slot no other thread knows; the task's store through its private copy is not a shared access before the join.
            # (With std::vector the same code is a race - growth relocates the slots - and stays reported.)
            if f.is_lambda and l[0] == "L" and rw == "w" and _fresh_stable_slot(db, f, l):
                continue
            # reading a local captured by value reads the closure's own copy, made when the closure was created
            if f.is_lambda and l[0] == "L" and rw == "r" and _captured_by_value(db, f, l):
                continue
            acc[l].append((f, n, rw, frozenset(C.held(f, n)), frozenset(role)))
    for l in sorted(acc, key=str):
        lst = acc[l]
        rs = set()
        for a in lst:
            rs |= a[4]
        has_write = any(a[2] == "w" for a in lst)
        worker_touch = any("worker" in a[4] for a in lst)
        if not (has_write and worker_touch):
            continue
        # locals of the building constructor touched only by the producer are not shared
        rep.inst(lst[0][0].nloc(lst[0][1]), "%s: %d accesses, roles %s" % (loc_str(l), len(lst), "+".join(sorted(rs))))
        rep.ob()
        common = None
        for a in lst:
            common = set(a[3]) if common is None else (common & a[3])
        if not common:
            worst = [a for a in lst if not a[3]] or lst
            a = worst[0]
            rep.viol("race:%s" % loc_str(l), a[0].nloc(a[1]),
                     "%s is written and is accessed from worker threads, but its accesses share no lock (e.g. %s in %s holds %s)" % (
                         loc_str(l), "write" if a[2] == "w" else "read", a[0].qn, ", ".join(loc_str(h) for h in a[3]) or "no lock"), a[0].qn)
        for a in lst:
            rep.visit(a[0])


@rule("R-SLOT", 1, "parallel build: the result slot is reserved (size read + push_back) in one critical section before the task "
                   "is queued, captured by value, and is the only element of shared state the task stores to")
def r_slot(db, rep):
    C = ctx(db)
    bctor = [c for c in db.methods_of(BLOCKS) if c.is_ctor and any(x["k"] == "LambdaExpr" for x in c.nodes())]
    add = db.fn("WorkerPool::add_task")
    hosts = []
    for c0 in bctor:
        hosts.append(c0)
        hosts.extend(sync_lambdas(db, c0))
    for c in hosts:
        rep.visit(c)
        cfg = c.cfg
        for call in [n for n in c.calls() if n.get("f") == add.id]:
            lam_node = None
            for a in call.get("args", []):
                lam_node = lam_node or lambda_node_of(db, c, a)
            if lam_node is None:
                continue
            lam = db.funcs[lam_node["lambda"]]
            rep.inst(c.nloc(call), "task queued by %s" % c.qn)
            # stores of the task to shared state
            idx_vars = set()
            for lv, w in written_lvalues(lam):
                s = strip(lv)
                p = access_path(lam, s)
                rep.ob()
                if p and p[0] == "local":
                    cap = next((cp for cp in lam_node["captures"] if cp.get("d") == p[1]), None)
                    if cap is None:
                        continue       # the task's own local
                    if not cap["byref"]:
                        continue
                    if not C.held(lam, w):
                        rep.viol("%s#task-writes-%s-unlocked" % (c.qn, cap["n"]), lam.nloc(w), "the queued task writes captured %s without a lock" % cap["n"], lam.qn)
                    continue
                if s["k"] == "CXXOperatorCallExpr" and s.get("opcall") == "[]":
                    base = access_path(lam, s["args"][0])
                    if base == ("this", "parts"):
                        ip = access_path(lam, s["args"][1])
                        if ip and ip[0] == "local":
                            idx_vars.add(ip[1])
                            cap = next((cp for cp in lam_node["captures"] if cp.get("d") == ip[1]), None)
                            if cap is None or cap["byref"]:
                                rep.viol("%s#slot-index-by-reference" % c.qn, lam.nloc(w),
                                         "the task indexes parts[] with a variable captured by reference: the producer changes it for the next block", lam.qn)
                        else:
                            rep.viol("%s#slot-index-not-captured" % c.qn, lam.nloc(w), "the task stores into parts[] at an index that is not its reserved slot", lam.qn)
                        continue
                if p and p[0] == "this":
                    rep.viol("%s#task-writes-%s" % (c.qn, p[1]), lam.nloc(w), "the queued task writes dictionary field %s (only its own slot of parts may be written)" % p[1], lam.qn)
            # mutating container calls on this->... inside the task
            ordered = _ordered_append(db, c, lam, lam_node)
            for n in lam.calls():
                if n.get("ext") and n["k"] == "CXXMemberCallExpr" and not n.get("fconst") and callee_name(n) not in MUTATORS_EXEMPT:
                    p = access_path(lam, n["obj"]) if n.get("obj") is not None else None
                    rep.ob()
                    if p == ("this", "parts") and n in ordered:
                        continue        # turn-ticket append: blocks land in submission order whatever the schedule
                    if p and p[0] == "this":
                        rep.viol("%s#task-mutates-%s" % (c.qn, p[1]), lam.nloc(n), "the queued task calls %s on dictionary field %s" % (callee_name(n), p[1]), lam.qn)
            # reservation: idx = parts.size(); parts.push_back(..) in one critical section dominating the add_task
            for d in idx_vars:
                rep.ob()
                assigns = [w for lv, w in written_lvalues(c) if access_path(c, lv) == ("local", d)]
                # ... or its declaration:  const auto idx = parts.size();
                for dn in c.nodes():
                    if dn["k"] == "DeclStmt":
                        for v in dn["decls"]:
                            if v.get("d") == d and v.get("init") is not None:
                                assigns.append({"k": "DeclInit", "id": dn["id"], "l": dn.get("l"), "rhs": v["init"], "_pos": dn})
                pushes = [n for n in c.calls() if n.get("ext") and callee_name(n) in ("push_back", "emplace_back", "resize") and
                          n.get("obj") is not None and access_path(c, n["obj"]) == ("this", "parts")]
                ok = False
                for a in assigns:
                    rhs = strip(a.get("rhs")) if a.get("rhs") else None
                    is_size = rhs is not None and any(x["k"] == "CXXMemberCallExpr" and callee_name(x) == "size" and
                                                      access_path(c, x.get("obj")) == ("this", "parts") for x in walk(rhs))
                    if not is_size:
                        continue
                    apn = a.get("_pos", a)
                    for pb in pushes:
                        ga, gp = C.ls(c).guard_vars_held_at(apn), C.ls(c).guard_vars_held_at(pb)
                        # where the design locks the slot table at all, size() and push_back() sit in one critical section (same guard
                        # instance, no release between them); whether a lock is needed is R-LOCKSET's question, not this rule's
                        same_section = bool(ga & gp) or (not ga and not gp)
                        between = [cfg.position(x) for x in pushes if x is not pb]
                        apos = cfg.position(apn) or next((cfg.position(x) for x in walk(a["rhs"]) if cfg.position(x) is not None), None)
                        if apos is None:
                            continue
                        if same_section and cfg.dominates(apos, cfg.position(pb)) and cfg.dominates(cfg.position(pb), cfg.position(call)) \
                                and not any(b is not None and cfg.path_exists(apos, [b], avoid=[cfg.position(pb)]) and
                                            cfg.path_exists(b, [cfg.position(pb)], avoid=[apos]) for b in between):
                            ok = True
                if not ok:
                    rep.viol("%s#slot-reservation" % c.qn, c.nloc(call),
                             "the slot index of the queued task is not reserved by `idx = parts.size(); parts.push_back()` inside one critical section before add_task", c.qn)
            # no worker-role code resizes parts
            for l2 in [x for x in db.lambdas_of.get(locks.outer_id(db, c), []) if x.id not in {h.id for h in hosts}]:
                for n in l2.calls():
                    if n.get("ext") and callee_name(n) in ("push_back", "emplace_back", "resize", "clear", "erase", "pop_back") and n.get("obj") is not None \
                            and access_path(l2, n["obj"]) == ("this", "parts"):
                        if l2.id == lam.id and n in ordered and not idx_vars:
                            continue    # ordered append and no task addresses a slot by index
                        rep.ob()
                        rep.viol("%s#task-resizes-parts" % c.qn, l2.nloc(n), "a task resizes parts: other tasks' slots move", l2.qn)


def _ordered_append(db, c, lam, lam_node):
    """push_back calls on this->parts in the task lam that are dominated by `cv.wait(lock, [..ticket..]{ return parts.size() == ticket; })`
    with `ticket` captured by value and numbered 0, 1, 2, .. by the producer (`ticket = counter++`, counter starting at 0 and written
    nowhere else): each task appends only when all earlier ones have."""
    out = []
    if lam.cfg is None:
        return out
    for w in lam.calls():
        if callee_name(w) != "wait" or not (w.get("frec") or "").startswith("std::condition_variable") or len(w.get("args", [])) < 2:
            continue
        pred = lambda_of(db, lam, w["args"][1])
        if pred is None:
            continue
        rets = [r for r in pred.live_nodes() if r["k"] == "ReturnStmt" and r.get("value") is not None]
        if len(rets) != 1:
            continue
        e = strip(rets[0]["value"])
        if e["k"] != "BinaryOperator" or e["op"] != "==":
            continue
        ticket = None
        for a, b in ((e["lhs"], e["rhs"]), (e["rhs"], e["lhs"])):
            sa = strip(a)
            pb = access_path(pred, b)
            if sa["k"] == "CXXMemberCallExpr" and callee_name(sa) == "size" and access_path(pred, sa.get("obj")) == ("this", "parts") and pb and pb[0] == "local":
                ticket = pb[1]
        if ticket is None:
            continue
        cap = next((cp for cp in lam_node["captures"] if cp.get("d") == ticket), None)
        if cap is None or cap.get("byref"):
            continue
        # ticket = counter++ in the producer, counter = 0 initially and touched by nothing else
        ini = single_def_init(c, ticket)
        si = strip(ini) if ini is not None else None
        if si is None or si["k"] != "UnaryOperator" or si["op"] != "++" or not si.get("postfix"):
            continue
        cp_ = access_path(c, si["sub"])
        if not cp_ or cp_[0] != "local":
            continue
        cinit = None
        for dn in c.nodes():
            if dn["k"] == "DeclStmt":
                for v in dn["decls"]:
                    if v.get("d") == cp_[1]:
                        cinit = v.get("init")
        others = [x for lv, x in written_lvalues(c) if access_path(c, lv) == cp_ and x is not si]
        for l2 in db.lambdas_of.get(c.id, []):
            others += [x for lv, x in written_lvalues(l2) if access_path(l2, lv) == cp_]
        if cinit is None or const_value(cinit) != 0 or others:
            continue
        wp = lam.cfg.position(w)
        for n in lam.calls():
            if n.get("ext") and callee_name(n) in ("push_back", "emplace_back") and n.get("obj") is not None and access_path(lam, n["obj"]) == ("this", "parts"):
                np_ = lam.cfg.position(n)
                if wp and np_ and lam.cfg.dominates(wp, np_):
                    out.append(n)
    return out


def sync_lambdas(db, c):
    """Local lambdas of c that c itself invokes (helper closures such as `auto submit = [&](..){..}; submit(n);`): their bodies run
    on the constructor's thread, as part of it."""
    out = []
    for n in c.nodes():
        if n["k"] == "CXXOperatorCallExpr" and n.get("opcall") == "()" and n.get("args"):
            l = lambda_of(db, c, n["args"][0])
            if l is not None and l not in out:
                out.append(l)
    return out


SYNC_KINDS = {
    "wait": lambda n: callee_name(n) == "wait" and n.get("frec", "").startswith("std::condition_variable"),
    "stop": lambda n: callee_name(n) == "stop_all_workers",
    "join": lambda n: callee_name(n) == "wait_workers",
}


def sync_nodes(db, g, kind, depth=0):
    """Call nodes of g that perform the synchronisation step `kind`: the primitive itself, or a helper of the code base that
    performs it on every path from its entry to its exit."""
    out = []
    for n in g.calls():
        if SYNC_KINDS[kind](n):
            out.append(n)
        elif depth < 3:
            h = db.funcs.get(n.get("f"))
            if h is not None and h.body is not None and h.cfg is not None and h.id != g.id and in_scope(h) and n["k"] in ("CallExpr", "CXXMemberCallExpr"):
                inner = [h.cfg.position(x) for x in sync_nodes(db, h, kind, depth + 1)]
                inner = [p for p in inner if p is not None]
                if inner and not h.cfg.path_exists(h.cfg.entry, [h.cfg.exit], avoid=inner):
                    out.append(n)
    return out


@rule("R-JOIN", 1, "parallel build: the constructor passes, in order, the completion wait, stop_all_workers and wait_workers on every "
                   "path before it returns, frees the shared input, or lets by-reference captures die")
def r_join(db, rep):
    bctor = [c for c in db.methods_of(BLOCKS) if c.is_ctor and any(x["k"] == "LambdaExpr" for x in c.nodes())]
    for c in bctor:
        rep.visit(c)
        cfg = c.cfg
        rep.inst(c.loc, "%s: wait -> stop -> join ordering" % c.qn)
        w, s, j = sync_nodes(db, c, "wait"), sync_nodes(db, c, "stop"), sync_nodes(db, c, "join")
        adds = [n for n in c.calls() if callee_name(n) == "add_task"]
        rep.ob()
        # stop + join are what completion rests on: the workers leave their loop only with the queue drained (R-DRAIN), so after
        # stop_all_workers ; wait_workers every queued task has run.  A condition wait before the stop is the tree's belt-and-braces
        # form; when present it must come first, but its absence is not a defect.
        # shutdown signalled by the tasks themselves (the task that finishes last calls stop_all_workers): whether that protocol
        # always fires is a counting argument over run-time state, not decided here; the join obligations remain
        run_, tasks_, _wf = roles(db)
        task_stop = [t for t in tasks_ if locks.outer_id(db, t) == c.id and any(
            callee_name(x) == "stop_all_workers" for fid in db.closure([t]) for x in db.funcs[fid].calls())]
        if task_stop and j:
            rep.notes.append("%s: stop_all_workers is called from a queued task (%s): completion protocol not decided; only the join "
                             "obligations are checked" % (c.qn, task_stop[0].loc))
            jp = cfg.position(j[0])
            for a in adds:
                rep.ob()
                if cfg.path_exists(cfg.position(a), [cfg.exit], avoid=[jp]):
                    rep.viol("%s#exit-skips-wait_workers" % c.qn, c.nloc(a),
                             "a path from add_task to the end of %s skips wait_workers: the constructor can return while tasks still run" % c.qn, c.qn)
            continue
        if not (s and j):
            rep.viol("%s#missing-sync" % c.qn, c.loc, "%s queues tasks but lacks %s" % (
                c.qn, ", ".join(x for x, y in (("stop_all_workers", s), ("wait_workers", j)) if not y)), c.qn)
            continue
        sp, jp = cfg.position(s[0]), cfg.position(j[0])
        wp = cfg.position(w[0]) if w else None
        for a in adds:
            ap = cfg.position(a)
            for name, p in ((("completion wait", wp),) if wp is not None else ()) + (("stop_all_workers", sp), ("wait_workers", jp)):
                rep.ob()
                if cfg.path_exists(ap, [cfg.exit], avoid=[p]):
                    rep.viol("%s#exit-skips-%s" % (c.qn, name.replace(" ", "-")), c.nloc(a),
                             "a path from add_task to the end of %s skips the %s: the constructor can return (and the pool, mutex and counters "
                             "die) while tasks still run" % (c.qn, name), c.qn)
        rep.ob()
        ordered = (wp is None or cfg.dominates(wp, sp)) and cfg.dominates(sp, jp)
        if not w:
            w = [None]
        if ordered and (w[0] is s[0] or s[0] is j[0]):
            # several steps inside one helper: their order is the helper's
            h = db.funcs.get(w[0].get("f") if w[0] is s[0] else s[0].get("f"))
            if h is not None and h.cfg is not None:
                hw, hs, hj = sync_nodes(db, h, "wait"), sync_nodes(db, h, "stop"), sync_nodes(db, h, "join")
                pos = lambda lst: h.cfg.position(lst[0]) if lst else None
                if w[0] is s[0] and not (pos(hw) and pos(hs) and h.cfg.dominates(pos(hw), pos(hs)) and pos(hw) != pos(hs)):
                    ordered = False
                if s[0] is j[0] and not (pos(hs) and pos(hj) and h.cfg.dominates(pos(hs), pos(hj)) and pos(hs) != pos(hj)):
                    ordered = False
        if not ordered:
            rep.viol("%s#order" % c.qn, c.nloc(s[0]), "completion wait, stop_all_workers and wait_workers are not executed in this order", c.qn)
        # the shared input dies only after the join
        for n in c.nodes():
            if n["k"] == "CXXDeleteExpr":
                p = access_path(c, n["sub"])
                if p and p[0] == "param":
                    rep.ob()
                    if not cfg.dominates(jp, cfg.position(n)):
                        rep.viol("%s#input-freed-early" % c.qn, c.nloc(n), "the input iterator (owner of the text the tasks read) is deleted before wait_workers", c.qn)
        # by-reference captures must be declared before (outlive) the pool, whose destructor is the last resort join
        lam_nodes = [x for x in c.nodes() if x["k"] == "LambdaExpr"]
        pool_decl = None
        for n in c.nodes():
            if n["k"] == "DeclStmt":
                for d in n["decls"]:
                    if d.get("k") == "VarDecl" and c.types[d["t"]].get("rec") == "WorkerPool":
                        pool_decl = n
        for ln in lam_nodes:
            for cp in ln["captures"]:
                if cp.get("byref") and "d" in cp:
                    rep.ob()
                    # scope of the captured local must enclose the join: its destructor / end of scope comes after wait_workers
                    decl = None
                    for n in c.nodes():
                        if n["k"] == "DeclStmt" and any(d.get("d") == cp["d"] for d in n["decls"]):
                            decl = n
                    if decl is not None:
                        par = c.parent(decl)
                        jpar_chain = [c.parent(j[0])] + list(c.ancestors(j[0]))
                        if par is not None and not any(par is a for a in jpar_chain):
                            rep.viol("%s#capture-%s-scope" % (c.qn, cp["n"]), c.nloc(decl),
                                     "%s is captured by reference by a task but its scope ends before wait_workers" % cp["n"], c.qn)


@rule("R-WORKERPURE", 50, "the task closure (block builder and everything below it) writes no global or function-static variable, "
                          "reads only globals nobody writes, and never stores into the shared input text")
def r_workerpure(db, rep):
    E = get_effects(db)
    run, tasks, worker_funcs = roles(db)
    # who writes which global (directly)
    gwriters = collections.defaultdict(list)
    for f in db.funcs.values():
        lp = E.localpts.get(f.id, {})
        for lv, w in written_lvalues(f):
            for r in E.lvalue_regions(f, lv, lp):
                if r[0] == "global":
                    gwriters[r[1]].append((f, w))
    nfun = 0
    for t in tasks:
        # objects handed to the task by the producer (captured pointers) exist although the task does not create them
        given = set()
        par = db.funcs[t.parent_id]
        for ln in par.nodes():
            if ln["k"] == "LambdaExpr" and ln["lambda"] == t.id:
                for cp in ln["captures"]:
                    if "t" in cp:
                        ct = par.types[cp["t"]]
                        pt = par.pointee(ct) or ct
                        if pt.get("rec"):
                            given.add(pt["rec"])
        clo, inst = db.rta([t], inst0=given)
        for fid in sorted(clo):
            f = db.funcs[fid]
            nfun += 1
            rep.visit(f)
            rep.inst(f.loc, "%s (in the closure of a queued task)" % f.qn)
            S = E.sum[fid]
            lp = E.localpts.get(fid, {})
            # direct global writes in this function
            for lv, w in written_lvalues(f):
                for r in E.lvalue_regions(f, lv, lp):
                    rep.ob()
                    if r[0] == "global" and db.globals.get(r[1], {}).get("tls"):
                        continue            # thread_local: every worker has its own copy
                    if r[0] == "global" and not allowed_global(r):
                        rep.viol("%s#writes-global-%s" % (f.qn, db.globals.get(r[1], {}).get("qn", r[1])), f.nloc(w),
                                 "%s runs in worker threads (reached from a queued task: %s) and writes global/static %s" % (
                                     f.qn, " -> ".join(db.chain(clo, fid)[-4:]), db.globals.get(r[1], {}).get("qn", r[1])), f.qn)
            # static locals declared here
            for n in f.nodes():
                if n["k"] == "DeclStmt":
                    for d in n["decls"]:
                        if d.get("static") and not f.types[d["t"]].get("const"):
                            if any(g0.get("tls") and g0.get("staticlocal") and g0.get("infunc") == f.id and (g0.get("n") == d.get("n") or (g0.get("qn") or "").endswith(d.get("n") or "\0"))
                                   for g0 in db.globals.values()):
                                continue    # static thread_local
                            rep.ob()
                            rep.viol("%s#static-local-%s" % (f.qn, d["n"]), f.nloc(n),
                                     "%s runs in worker threads and owns the mutable static local %s" % (f.qn, d["n"]), f.qn)
            # globals read must be write-free
            for n in f.nodes():
                u = None
                if n["k"] == "DeclRefExpr" and n.get("dk") in ("global", "staticlocal", "staticmember"):
                    u = n["u"]
                elif n["k"] == "MemberExpr" and n.get("mk") == "staticmember":
                    u = n["u"]
                if u is None or u in STD_STREAMS or n.get("const") or db.globals.get(u, {}).get("tls"):
                    continue
                rep.ob()
                ws = [(g, w) for g, w in gwriters.get(u, [])]
                if ws:
                    g, w = ws[0]
                    rep.viol("%s#reads-written-global-%s" % (f.qn, db.globals.get(u, {}).get("qn", u)), f.nloc(n),
                             "%s runs in worker threads and reads global %s, which %s writes (%s)" % (
                                 f.qn, db.globals.get(u, {}).get("qn", u), g.qn, g.nloc(w)), f.qn)
        # the input text: the task's builder must not store through the iterator's buffer
        S = E.sum[t.id]
        for (r, l) in sorted(S.mod, key=str):
            rep.ob()
            if r[0] == "global" and not allowed_global(r):
                pass  # reported above at its origin
    # stores into the shared text: the builder run by a task receives an iterator over text it shares with the
    # other tasks; through that parameter it may update the iterator's own cursor fields only
    for t in tasks:
        for n in t.calls():
            if n["k"] in ("CXXConstructExpr",) and n.get("f") in db.funcs:
                ctor = db.funcs[n["f"]]
                S = E.sum[ctor.id]
                for ai, a in enumerate(n.get("args", [])):
                    at = t.type(a)
                    pt = t.pointee(at) if at else None
                    if not (pt and pt.get("rec", "").startswith("IteratorDictString")):
                        continue
                    srec = pt["rec"]            # static class of the shared iterator at the task (IteratorDictStringPlain)
                    own = set()
                    for rr in [srec] + db.all_bases(srec):
                        own |= {fl["n"] for fl in db.records.get(rr, {"fields": []})["fields"]}
                    for (r, l) in sorted(S.mod, key=str):
                        if r[0] == "param" and r[1] == ai and len(r) > 2:
                            rep.ob()
                            if r[2] in own:
                                chain = E.explain(ctor.id, "mod", (r, l))
                                rep.viol("%s#stores-into-input-%s" % (ctor.qn, r[2]), ctor.loc,
                                         "%s (run by worker threads on a shared text) stores into memory its %s::%s points to: %s" % (
                                             ctor.qn, srec, r[2], " -> ".join(chain)), ctor.qn)
                    rep.ob()
    rep.notes.append("%d functions in task closures (rapid type analysis from each queued lambda)" % nfun)


@rule("R-PARAMFLOW", 2, "thread_count reaches nothing but the pool size; cut_size only the cut decision and the saved header")
def r_paramflow(db, rep):
    bctors = [c for c in db.methods_of(BLOCKS) if c.is_ctor]
    E = get_effects(db)

    def role_of(c, i):
        """'thread_count' for the parameter handed to the WorkerPool, 'cut_size' for the one stored in field cut_size (else by name)."""
        for n in c.nodes():
            if n["k"] == "DeclRefExpr" and n.get("dk") == "param" and n.get("pi") == i:
                for a in c.ancestors(n):
                    if a["k"] in ("CXXConstructExpr", "CXXTemporaryObjectExpr"):
                        if a.get("rec") == "WorkerPool":
                            return "thread_count"
                        break
        for ini in c.raw.get("inits", []):
            if ini.get("field") == "cut_size" and isinstance(ini.get("init"), dict) and \
                    any(x["k"] == "DeclRefExpr" and x.get("dk") == "param" and x.get("pi") == i for x in walk(ini["init"])):
                return "cut_size"
        return c.params[i]["n"] if c.params[i]["n"] in ("thread_count", "cut_size") else None

    def pure_decision_helper(c, call, u):
        """cut_size handed to an effect-free helper that only compares it, the call being (part of) a branch condition."""
        g = db.funcs.get(call.get("f"))
        if g is None or g.body is None or g.id not in E.sum:
            return False
        S = E.sum[g.id]
        if S.mod or S.free:
            return False
        ai = next((k for k, a in enumerate(call.get("args", [])) if any(x is u for x in walk(a))), None)
        if ai is None or ai >= len(g.params):
            return False
        for x in g.nodes():
            if x["k"] == "DeclRefExpr" and x.get("dk") == "param" and x.get("pi") == ai:
                par = g.parent(x)
                while par is not None and par["k"] in TRANSPARENT:
                    par = g.parent(par)
                if par is None or par["k"] != "BinaryOperator" or par["op"] not in (">", "<", ">=", "<="):
                    return False
        for a in c.ancestors(call):
            if a["k"] in ("IfStmt", "WhileStmt", "ForStmt", "DoStmt"):
                return a.get("cond") is not None and any(x is call for x in walk(a["cond"]))
            if a["k"] in ("CompoundStmt", "DeclStmt", "ReturnStmt"):
                return False
        return False

    for c in bctors:
        for i, p0 in enumerate(c.params):
            role = role_of(c, i)
            if role is None:
                continue
            p = {"n": role}
            rep.visit(c)
            uses = [n for n in c.nodes() if n["k"] == "DeclRefExpr" and n.get("dk") == "param" and n.get("pi") == i]
            rep.inst(c.loc, "%s: %d uses of %s" % (c.qn, len(uses), p["n"]))
            for u in uses:
                rep.ob()
                anc = list(c.ancestors(u))
                ok = False
                why = "an expression"
                # a capacity hint: the whole expression is the argument of container.reserve(): no observable effect on the result
                def in_reserve(chain):
                    return any(a["k"] == "CXXMemberCallExpr" and callee_name(a) == "reserve" and (a.get("frec") or "").startswith("std::") for a in chain)
                if in_reserve(anc):
                    ok = True
                else:
                    # ... possibly through a local that only feeds such a hint:  const auto min_block = cut_size + 1; v.reserve(n / min_block + 1);
                    dst = next((a for a in anc if a["k"] == "DeclStmt"), None)
                    if dst is not None and len(dst["decls"]) == 1 and "d" in dst["decls"][0]:
                        lu = [x for x in c.nodes() if x["k"] == "DeclRefExpr" and x.get("dk") == "local" and x.get("d") == dst["decls"][0]["d"]]
                        if lu and all(in_reserve(list(c.ancestors(x))) for x in lu):
                            ok = True
                for a in ([] if ok else anc):
                    if a["k"] in ("CXXConstructExpr", "CXXTemporaryObjectExpr"):
                        if p["n"] == "thread_count" and a.get("rec") == "WorkerPool":
                            ok = True
                        if a.get("rec") == BLOCKS:
                            ok = True      # delegation to the next constructor
                        why = "constructor of %s" % a.get("rec")
                        break
                    if a["k"] == "BinaryOperator" and a["op"] in (">", "<", ">=", "<=") and p["n"] == "cut_size":
                        # acc_size > cut_size: the cut decision
                        other = a["lhs"] if any(x is u for x in walk(a["rhs"])) else a["rhs"]
                        op = access_path(c, other)
                        ok = op is not None and op[0] == "local"
                        why = "comparison"
                        break
                    if a["k"] == "CallExpr" and p["n"] == "cut_size" and pure_decision_helper(c, a, u):
                        ok = True
                        why = "decision helper"
                        break
                    if a["k"] in ("CallExpr", "CXXMemberCallExpr", "BinaryOperator", "CompoundAssignOperator", "ArraySubscriptExpr", "ReturnStmt", "IfStmt",
                                  "WhileStmt", "ForStmt", "CXXNewExpr"):
                        why = a["k"] + (" " + a.get("op", a.get("fn", "")))
                        break
                # member initialiser cut_size(cut_size)
                if not ok and p["n"] == "cut_size":
                    for ini in c.raw.get("inits", []):
                        if ini.get("field") == "cut_size" and isinstance(ini.get("init"), dict) and any(x is u for x in walk(ini["init"])):
                            ok = True
                if not ok:
                    rep.viol("%s#%s-flows-into-%s" % (c.qn + "/%d" % len(c.params), p["n"], why.split()[0]), c.nloc(u),
                             "%s is used in %s: the %s would then influence the built dictionary, not only %s" % (
                                 p["n"], why, p["n"], "the pool size" if p["n"] == "thread_count" else "where blocks are cut"), c.qn)
    # the field cut_size is read only by save / getSize-like accounting
    for f in db.methods_of(BLOCKS):
        for n in f.nodes():
            if n["k"] == "MemberExpr" and n.get("mk") == "field" and n["n"] == "cut_size" and access_path(f, n) == ("this", "cut_size"):
                rep.ob()
                if f.name not in ("save",) and not f.is_ctor:
                    rep.viol("%s#reads-cut_size" % f.qn, f.nloc(n), "%s reads cut_size: answers would depend on a tuning parameter" % f.qn, f.qn)


NONDET_DENY = {"rand", "srand", "random", "srandom", "drand48", "lrand48", "rand_r", "time", "clock", "gettimeofday", "clock_gettime",
               "getpid", "getppid", "gettid", "get_id", "getrusage", "now", "random_device", "tmpnam", "mkstemp", "getenv", "getTime"}


@rule("R-NONDET", 300, "no builder, save or task closure consults a clock, random source, process/thread id or environment, "
                       "or orders data by pointer value")
def r_nondet(db, rep):
    from rules_dispatch import kinds
    roots = []
    for k in kinds(db):
        for m in db.methods_of(k):
            if m.is_ctor or m.name == "save":
                roots.append(m)
    clo, inst = db.rta(roots)
    for fid in sorted(clo):
        f = db.funcs[fid]
        rep.visit(f)
        rep.inst(f.loc, f.qn)
        for n in f.calls():
            nm = callee_name(n)
            rep.ob()
            if nm in NONDET_DENY and (n.get("ext") or nm == "getTime"):
                rep.viol("%s#calls-%s" % (f.qn, nm), f.nloc(n),
                         "%s is on a build/save path (%s) and calls %s: two builds of the same input may differ" % (
                             f.qn, " -> ".join(db.chain(clo, fid)[-4:]), n.get("fn", nm)), f.qn)
            if n["k"] in ("CXXConstructExpr", "CXXTemporaryObjectExpr") and n.get("rec", "") in ("std::random_device", "std::mt19937"):
                rep.viol("%s#uses-%s" % (f.qn, n["rec"]), f.nloc(n), "%s is on a build/save path and uses %s" % (f.qn, n["rec"]), f.qn)
        # containers keyed by pointer value
        for n in f.nodes():
            if n["k"] == "DeclStmt":
                for d in n["decls"]:
                    t = f.types[d["t"]] if "t" in d else None
                    if t and t.get("rec") in ("std::map", "std::set", "std::unordered_map", "std::unordered_set", "std::multimap", "std::multiset"):
                        rep.ob()
                        s = t["s"]
                        key = s[s.index("<") + 1:].split(",")[0].strip() if "<" in s else ""
                        if key.endswith("*"):
                            rep.viol("%s#container-keyed-by-pointer-%s" % (f.qn, d["n"]), f.nloc(n),
                                     "%s is on a build/save path and iterates a container ordered/hashed by pointer value (%s)" % (f.qn, s[:60]), f.qn)
    rep.notes.append("%d functions on build/save paths (rapid type analysis from %d constructors and saves)" % (len(clo), len(roots)))


@rule("R-LOCKORDER", 6, "the locks of the pool and of the parallel build are always acquired in one global order and never "
                        "re-acquired while held (no lock-order deadlock, no self-deadlock on a non-recursive mutex)")
def r_lockorder(db, rep):
    C = ctx(db)
    funcs = [f for f in db.funcs.values() if in_scope(f) and f.cfg]
    direct = {}
    for f in funcs:
        ls = C.ls(f)
        acqs = []
        for pos, evs in ls.events.items():
            for k, d in evs:
                if k == "acq" and ls.guards.get(d) is not None:
                    acqs.append((pos, d, ls.guards[d]))
        if acqs:
            direct[f.id] = acqs
    # locks acquired in the closure of each function
    memo = {}

    def acq_closure(fid, stack=()):
        if fid in memo:
            return memo[fid]
        if fid in stack:
            return set()
        s = {l for _, _, l in direct.get(fid, [])}
        f = db.funcs.get(fid)
        if f is not None and in_scope(f):
            for n, t in db.callees(f, with_dtors=False):
                if t in db.funcs and n is not None and n["k"] != "LambdaExpr":
                    s |= acq_closure(t, stack + (fid,))
        memo[fid] = s
        return s

    edges = collections.defaultdict(list)
    for f in funcs:
        ls = C.ls(f)
        entry = C.entry_locks(f) or set()
        for pos, d, L in direct.get(f.id, []):
            rep.inst("%s:%d" % (f.file, f.line), "%s acquires %s" % (f.qn, loc_str(L)))
            gs = ls._transfer(pos[0], ls.IN[pos[0]], upto=pos[1])
            held = {ls.guards[g] for g in gs if ls.guards.get(g) is not None and g != d} | entry
            for h in held:
                rep.ob()
                edges[h].append((L, f, None))
        calls = [(n, t) for n, t in db.callees(f, with_dtors=False)]
        # invoking a queued std::function runs any task lambda handed to add_task
        _, tasks, _ = roles(db)
        for n in f.calls():
            if n["k"] == "CXXOperatorCallExpr" and n.get("opcall") == "()" and "std::function" in n.get("frec", ""):
                for t in tasks:
                    calls.append((n, t.id))
        for n, t in calls:
            if n is None or t not in db.funcs or n["k"] == "LambdaExpr":
                continue
            inner = acq_closure(t)
            if not inner:
                continue
            held = ls.held_at(n) | entry
            for h in held:
                for L in inner:
                    rep.ob()
                    edges[h].append((L, f, n))
    # self edges and cycles
    for h, outs in edges.items():
        for L, f, n in outs:
            if L == h:
                rep.viol("selflock:%s@%s" % (loc_str(h), f.qn), f.nloc(n) if n else f.loc,
                         "%s acquires %s while already holding it (std::mutex is not recursive: self-deadlock)" % (f.qn, loc_str(h)), f.qn)
    order = {}
    for h, outs in edges.items():
        for L, f, n in outs:
            if L != h:
                order.setdefault((h, L), (f, n))
    for (a, b), (f, n) in sorted(order.items(), key=str):
        rep.ob()
        if (b, a) in order:
            g, m = order[(b, a)]
            if str((a, b)) < str((b, a)):
                rep.viol("lockorder:%s<->%s" % (loc_str(a), loc_str(b)), f.nloc(n) if n else f.loc,
                         "%s takes %s then %s, but %s takes them in the opposite order: two threads can deadlock" % (
                             f.qn, loc_str(a), loc_str(b), g.qn), f.qn)
    rep.notes.append("lock order edges: " + ", ".join(sorted("%s->%s" % (loc_str(a), loc_str(b)) for a, b in order)))


def _calls_in(cond, rec, name):
    return [x for x in walk(cond) if x["k"] == "CXXMemberCallExpr" and callee_name(x) == name and x.get("frec") == rec]


def _empty_implied(db, h, pol):
    """Every way the WorkerQueue method h can return `pol` has seen its container empty (`return q.empty()` for true; a
    check-and-pop's `if (q.empty()) return false;` for false)."""
    if h is None or h.body is None or h.cfg is None:
        return False
    seen = False
    for r in h.live_nodes():
        if r["k"] != "ReturnStmt" or r.get("value") is None:
            continue
        cv = const_value(r["value"])
        if cv is not None and bool(cv) != bool(pol):
            continue
        atoms = list(h.cfg.guards(r))
        if cv is None:
            atoms += implied_atoms(r["value"], pol)
        if not any(c is not None and strip(c)["k"] == "CXXMemberCallExpr" and callee_name(strip(c)) == "empty" and p for c, p in atoms):
            return False
        seen = True
    return seen


@rule("R-DRAIN", 1, "a worker leaves its loop only when it has observed both `stopped` and an empty queue: no queued task is "
                    "dropped at shutdown and no worker retires while the pool is live")
def r_drain(db, rep):
    run = db.fn("Worker::run")
    rep.visit(run)
    loops = [n for n in run.live_nodes() if n["k"] in ("WhileStmt", "ForStmt", "DoStmt")]
    outer = [l for l in loops if not any(a["k"] in ("WhileStmt", "ForStmt", "DoStmt") for a in run.ancestors(l))]
    if len(outer) != 1:
        raise AnalysisBroken("Worker::run: expected exactly one top-level worker loop, found %d" % len(outer))
    loop = outer[0]
    exits = []
    if loop.get("cond") is not None and not const_value(loop["cond"]):
        exits.append(("the loop condition", loop, implied_atoms(loop["cond"], False)))
    # locals that a wait predicate (a closure) writes: an exit decided on one of them knows what the predicate established,
    # which is not followed here
    pred_written = set()
    for l0 in db.lambdas_of.get(run.id, []):
        for lv0, w0 in written_lvalues(l0):
            p0 = access_path(l0, lv0)
            if p0 and p0[0] == "local":
                pred_written.add(p0[1])
        for c0 in l0.calls():
            for a0 in c0.get("args", []):
                p0 = access_path(l0, a0)
                if p0 and p0[0] == "local" and len(p0) == 2:
                    pred_written.add(p0[1])
    for n in walk(loop["body"]):
        if n["k"] in ("BreakStmt", "ReturnStmt"):
            # breaks of nested loops do not leave the worker loop
            inner = False
            for a in run.ancestors(n):
                if a is loop:
                    break
                if a["k"] in ("WhileStmt", "ForStmt", "DoStmt", "SwitchStmt") and n["k"] == "BreakStmt":
                    inner = True
            if not inner:
                exits.append(("the %s at line %s" % ("break" if n["k"] == "BreakStmt" else "return", n.get("l")), n, run.cfg.guards(n)))
    for what, node, atoms in exits:
        atoms = expand_atoms(db, atoms)
        rep.inst(run.nloc(node), "Worker::run can leave its loop through %s" % what)
        knows_stopped = knows_empty = False
        via_pred = any(x["k"] == "DeclRefExpr" and x.get("dk") == "local" and x.get("d") in pred_written
                       for c, pol in atoms if c is not None for x in walk(c))
        for c, pol in atoms:
            if c is None:
                continue
            sc = strip(c)
            if sc["k"] == "CXXMemberCallExpr" and sc.get("frec") == "WorkerQueue" and _empty_implied(db, db.funcs.get(sc.get("f")), pol):
                knows_empty = True
            if sc["k"] == "CXXMemberCallExpr" and callee_name(sc) == "stopped" and pol:
                knows_stopped = True
            if sc["k"] == "CXXMemberCallExpr" and callee_name(sc) == "empty" and sc.get("frec") == "WorkerQueue" and pol:
                knows_empty = True
        if via_pred and not (knows_empty and knows_stopped):
            rep.notes.append("Worker::run: %s is decided on a variable the wait predicate fills in: what it knows about the queue and the "
                             "stop flag is not followed (undecided)" % what)
            continue
        rep.ob()
        if not knows_empty:
            rep.viol("Worker::run#exit-with-queued-tasks:%s" % what.split(" at ")[0].replace(" ", "-"), run.nloc(node),
                     "Worker::run leaves its loop through %s without having observed an empty queue: tasks queued before "
                     "stop_all_workers are dropped" % what, run.qn)
        rep.ob()
        if not knows_stopped:
            rep.viol("Worker::run#exit-while-live:%s" % what.split(" at ")[0].replace(" ", "-"), run.nloc(node),
                     "Worker::run leaves its loop through %s without having observed the stop flag: the worker retires while the pool "
                     "is live and later tasks never run" % what, run.qn)
