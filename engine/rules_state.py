"""R-STATE, R-INITCOVER: built/loaded state parity."""
from core import *
from rulebase import rule
from rules_dispatch import kinds, QUERY_OPS, ORDERED_KINDS
import rules_serial


def field_key(f, n):
    """(declaring record, field) of a MemberExpr field access."""
    return (n.get("rec"), n["n"])


def assigned_fields(db, f):
    """Fields (declaring record, name) that function f assigns (directly, any receiver), incl. constructor initialisers,
    aggregate initialisation and fields whose address is passed to a callee writing through it."""
    out = {}
    nonnull = set()
    for ini in f.raw.get("inits", []):
        if ini.get("field"):
            out.setdefault((ini.get("rec"), ini["field"]), f.line)
            if isinstance(ini.get("init"), dict) and const_value(ini["init"]) != 0:
                nonnull.add((ini.get("rec"), ini["field"]))
    for lv, w in written_lvalues(f):
        s = strip(lv)
        # a read-modify-write of a scalar member (n++, bytes += k) uses the old value: it does not initialise the member
        if s["k"] == "MemberExpr" and s.get("mk") == "field" and (w["k"] == "UnaryOperator" or w.get("op") not in (None, "=")) and \
                (f.type(s) or {}).get("kind") in ("int", "uint", "bool", "float"):
            continue
        if s["k"] == "MemberExpr" and s.get("mk") == "field":
            if not (w.get("op") == "=" and w.get("rhs") is not None and const_value(w["rhs"]) == 0):
                nonnull.add(field_key(f, s))
        # a[i] = v / a[i].x = v / *p = v on a member array or member pointer: the member itself counts as initialised only
        # if it is an in-object array (the pointer itself is not assigned by an element store)
        while True:
            if s["k"] == "MemberExpr" and s.get("mk") == "field":
                out.setdefault(field_key(f, s), w.get("l"))
                # x.y = v also initialises (part of) x when x is an in-object aggregate
                b = strip(s["base"])
                if b["k"] in ("MemberExpr", "ArraySubscriptExpr") and not s.get("arrow"):
                    s = b
                    continue
                break
            if s["k"] == "ArraySubscriptExpr":
                b = strip(s["base"])
                if b["k"] == "MemberExpr" and (f.type(b) or {}).get("kind") == "array":
                    s = b
                    continue
                break
            break
    for n in f.live_nodes():
        if n["k"] == "InitListExpr" and n.get("fields"):
            t = f.type(n)
            if t and t.get("rec"):
                for fn, e in zip(n["fields"], n.get("inits", [])):
                    if e is not None:
                        out.setdefault((t["rec"], fn), n.get("l"))
        # &obj->field / obj->field (array) handed to a callee through a non-const pointer parameter (fill-in by callee)
        if n["k"] in ("CallExpr", "CXXMemberCallExpr"):
            for i in n.get("pw", []):
                args = n.get("args", [])
                if i < len(args):
                    a = strip(args[i])
                    if a["k"] == "UnaryOperator" and a["op"] == "&":
                        a = strip(a["sub"])
                    if a["k"] == "MemberExpr" and a.get("mk") == "field" and (f.type(a) or {}).get("kind") in ("array", "int", "uint", "bool", "rec"):
                        out.setdefault(field_key(f, a), n.get("l"))
            # in.read((char*)field, n)
            if callee_name(n) == "read" and n.get("args"):
                a = strip(n["args"][0])
                if a["k"] == "MemberExpr" and a.get("mk") == "field":
                    out.setdefault(field_key(f, a), n.get("l"))
    for k in list(out):
        if k not in nonnull:
            fd = db.field(k[0], k[1]) if k[0] else None
            if fd is not None and fd[2][fd[1]["t"]]["kind"] == "ptr":
                # a pointer that is assigned, but only ever the null constant
                out[k] = ("nullonly", out[k])
    return out


def read_fields(db, f):
    """Fields read in f: every MemberExpr that is not purely the target of a plain assignment."""
    pure_targets = set()
    for lv, w in written_lvalues(f):
        if w.get("op") == "=":
            s = strip(lv)
            if s["k"] == "MemberExpr":
                pure_targets.add(s["id"])
    out = {}
    for n in f.live_nodes():
        if n["k"] == "MemberExpr" and n.get("mk") == "field" and n["id"] not in pure_targets:
            # null tests (`if (p != NULL) delete p`) do not consume the pointee, but they do read the pointer: count them
            par = f.parent(n)
            while par is not None and par["k"] in TRANSPARENT | EXPLICIT_CASTS:
                par = f.parent(par)
            deref = False
            if par is not None:
                if par["k"] == "MemberExpr" and par.get("arrow") and strip(par.get("base")) is n:
                    deref = True
                elif par["k"] == "CXXMemberCallExpr" and par.get("arrow") and par.get("obj") is not None and strip(par["obj"]) is n:
                    deref = True
                elif par["k"] == "ArraySubscriptExpr" and strip(par["base"]) is n:
                    deref = True
                elif par["k"] == "UnaryOperator" and par["op"] == "*":
                    deref = True
            key = field_key(f, n)
            if deref and f.cfg is not None:
                # a dereference under `if (p != NULL)` is not a requirement on the creation state
                for c, pol in f.cfg.guards(n):
                    sc = strip(c) if c else None
                    if sc is None:
                        continue
                    if sc["k"] == "BinaryOperator" and sc["op"] in ("!=", "=="):
                        for a, b in ((sc["lhs"], sc["rhs"]), (sc["rhs"], sc["lhs"])):
                            sa = strip(a)
                            if sa["k"] == "MemberExpr" and sa.get("mk") == "field" and field_key(f, sa) == key and const_value(b) == 0:
                                if (sc["op"] == "!=" and pol) or (sc["op"] == "==" and not pol):
                                    deref = False
                    elif sc["k"] == "MemberExpr" and sc.get("mk") == "field" and field_key(f, sc) == key and pol:
                        deref = False
            if key not in out or (deref and not out[key][1]):
                out[key] = (n.get("l"), deref)
    return out


def creation_roots(db, k):
    roots = []
    for c in db.methods_of(k):
        if c.is_ctor and c.params and c.access == "public":
            t0 = c.tstr(c.params[0]["t"])
            if "Iterator" in t0:
                roots.append(("built", c))
    for l in db.methods_of(k, "load"):
        roots.append(("loaded", l))
    return roots


@rule("R-STATE", 26, "built / loaded state parity: every field that a query, getSize or save reads on an object of a class the "
                     "creation path instantiates is assigned by some code reachable from that creation path")
def r_state(db, rep):
    _assigned = {}
    _reads = {}

    def A(fid):
        if fid not in _assigned:
            _assigned[fid] = assigned_fields(db, db.funcs[fid])
        return _assigned[fid]

    def R(fid):
        if fid not in _reads:
            _reads[fid] = read_fields(db, db.funcs[fid])
        return _reads[fid]

    seen = set()
    for k in kinds(db):
        ops = []
        for op in QUERY_OPS + ["getSize", "save"]:
            ops += db.methods_of(k, op)
        op_ids = {o.id for o in ops}
        for state, root in creation_roots(db, k):
            rep.visit(root)
            clo, inst = db.rta([root])
            inst = set(inst) | {k}
            assigned = {}
            for fid in clo:
                for key, line in A(fid).items():
                    assigned.setdefault(key, (fid, line))
            # operations run on objects of exactly the classes this creation path instantiates
            uclo, _ = db.rta(ops, inst0=inst)
            nobl = 0
            for fid in sorted(uclo):
                g = db.funcs[fid]
                if g.is_ctor or g.is_dtor:
                    continue
                for (rec, fld), (line, deref) in R(fid).items():
                    if rec is None or rec not in db.records:
                        continue
                    # only objects the creation path itself makes: the dictionary and what it owns
                    if rec not in inst and not any(s in inst for s in db.all_subclasses(rec)):
                        continue
                    # objects of that class created later by the operations themselves are initialised by those operations
                    nobl += 1
                    rep.ob()
                    if (rec, fld) in assigned:
                        a_line = assigned[(rec, fld)][1]
                        if not (isinstance(a_line, tuple) and a_line[0] == "nullonly" and deref):
                            continue
                        # decided only where the dereference is unconditional in a callee, or sits in the public operation itself
                        # (deeper, a guard on a callee parameter may select the branch by kind: value-level)
                        if fid not in op_ids:
                            dn = [x for x in g.live_nodes() if x["k"] == "MemberExpr" and x.get("mk") == "field" and field_key(g, x) == (rec, fld)]
                            if any(g.cfg and g.cfg.guards(x) for x in dn):
                                continue
                        if any((rec, fld) in A(x) and not isinstance(A(x)[(rec, fld)], tuple) for x in clo):
                            continue
                        key = "%s[%s]:%s::%s=NULL" % (k, state, rec, fld)
                        if key in seen:
                            continue
                        seen.add(key)
                        rep.viol(key, "%s:%s" % (g.file, line),
                                 "%s::%s is dereferenced by %s (%s) on a %s %s, but every assignment reachable from %s (%s) stores NULL into it" % (
                                     rec, fld, g.qn, " -> ".join(db.chain(uclo, fid)[-4:]), state, k, root.qn, root.loc), g.qn,
                                 {"creation_root": root.qn, "state": state})
                        continue
                    # assigned by the operation closure itself before use (e.g. scratch members)? then it is not creation state
                    if any((rec, fld) in A(x) for x in uclo):
                        continue
                    key = "%s[%s]:%s::%s" % (k, state, rec, fld)
                    if key in seen:
                        continue
                    seen.add(key)
                    rep.viol(key, "%s:%s" % (g.file, line),
                             "%s::%s is read by %s (%s) on a %s %s, but nothing reachable from %s (%s) ever assigns it: "
                             "the %s object lacks state the operation needs" % (
                                 rec, fld, g.qn, " -> ".join(db.chain(uclo, fid)[-4:]), state, k, root.qn, root.loc, state), g.qn,
                             {"creation_root": root.qn, "state": state})
            rep.inst(root.loc, "%s %s via %s: %d functions on the creation path, %d on operation paths, %d field reads checked" % (
                state, k, root.qn, len(clo), len(uclo), nobl))


@rule("R-INITCOVER", 3, "fixed-size tables indexed by an arbitrary byte are filled for their whole extent by the loop that initialises them")
def r_initcover(db, rep):
    targets = [("DecodingTable", "ventry"), ("SSA", "alphabet"), ("XBW", "mapping"), ("XBW", "unmap"), ("XBW", "select_A"),
               ("StringDictionaryXBW", "mapping")]
    for rec, fld in targets:
        fd = db.field(rec, fld)
        if fd is None:
            continue
        t = fd[2][fd[1]["t"]]
        extent = fd[1].get("extent")
        for f in db.methods_of(rec):
            for n in f.live_nodes():
                if n["k"] != "ForStmt" or n.get("cond") is None:
                    continue
                body_writes = False
                for lv, w in written_lvalues(f):
                    s = strip(lv)
                    while s["k"] in ("MemberExpr",) and not s.get("arrow") and strip(s["base"])["k"] == "ArraySubscriptExpr":
                        s = strip(s["base"])
                    if s["k"] == "ArraySubscriptExpr":
                        p = access_path(f, s["base"])
                        if p and p[-1] == fld and any(x is w for x in walk(n["body"])):
                            iv = access_path(f, s["idx"])
                            cv = strip(n["cond"])
                            if cv["k"] == "BinaryOperator" and access_path(f, cv["lhs"]) == iv and iv is not None:
                                body_writes = True
                                bound = const_value(cv["rhs"])
                                op = cv["op"]
                if not body_writes:
                    continue
                rep.visit(f)
                # allocation extent: in-object array extent or new T[N] with constant N in the same class
                ext = extent
                if ext is None:
                    for g in db.methods_of(rec):
                        for lv, w in written_lvalues(g):
                            if access_path(g, lv) and access_path(g, lv)[-1] == fld and w.get("rhs") is not None:
                                r = strip(w["rhs"])
                                if r["k"] == "CXXNewExpr" and r.get("size") is not None and const_value(r["size"]) is not None:
                                    ext = const_value(r["size"])
                if ext is None or bound is None:
                    continue
                covered = bound if op == "<" else bound + 1 if op == "<=" else None
                # explicit stores at constant indices just above the loop range extend the covered prefix
                if covered is not None:
                    consts = set()
                    for lv, w in written_lvalues(f):
                        s2 = strip(lv)
                        if s2["k"] == "ArraySubscriptExpr":
                            p2 = access_path(f, s2["base"])
                            if p2 and p2[-1] == fld and const_value(s2["idx"]) is not None:
                                consts.add(const_value(s2["idx"]))
                    while covered in consts:
                        covered += 1
                rep.inst(f.nloc(n), "%s fills %s::%s[%d] for indices below %s" % (f.qn, rec, fld, ext, covered))
                rep.ob()
                if covered is not None and covered < ext:
                    rep.viol("%s#%s-partly-initialised" % (f.qn, fld), f.nloc(n),
                             "%s initialises only %d of the %d entries of %s::%s; the table is indexed by an arbitrary byte" % (
                                 f.qn, covered, ext, rec, fld), f.qn)


# ---------------------------------------------------------------------------------------------------
import symx
from symx import canon, mk_op, C
from rules_serial import SeqBuilder

RMW_PRIMS = {"set_field", "bitset", "bitclean", "set_var_field", "bitzero"}


def fill_loops(db, g, path):
    """[(loop node, bound sym, SeqBuilder)] for loops `for (i = 0; i < B; i++) path[i] = const`."""
    out = []
    for n in g.live_nodes():
        if n["k"] != "ForStmt" or n.get("cond") is None or n.get("body") is None:
            continue
        c = strip(n["cond"])
        if c["k"] != "BinaryOperator" or c["op"] not in ("<", "<="):
            continue
        iv = access_path(g, c["lhs"])
        if iv is None:
            continue
        ok = False
        for lv, w in written_lvalues(g):
            if not any(x is w for x in walk(n["body"])):
                continue
            s = strip(lv)
            if s["k"] == "ArraySubscriptExpr" and access_path(g, s["base"]) == path and access_path(g, s["idx"]) == iv and \
                    w.get("op") == "=" and w.get("rhs") is not None and const_value(w["rhs"]) is not None:
                ok = True
        if ok:
            out.append((n, c))
    return out


@rule("R-ZEROFILL", 6, "an array that is written through read-modify-write bit primitives (set_field, bitset, ...) is first filled "
                       "over its whole allocated extent: otherwise the bits never set are indeterminate (and end up in saved images)")
def r_zerofill(db, rep):
    funcs = [f for f in db.funcs.values() if not f.file.startswith("libcds/") and f.body]
    done = set()
    for f in sorted(funcs, key=lambda x: (x.file, x.line)):
        for call in f.calls():
            if callee_name(call) not in RMW_PRIMS or not call.get("args"):
                continue
            path = access_path(f, call["args"][0])
            if path is None or (path[0] == "this" and len(path) != 2) or (path[0] == "local" and len(path) != 2) or path[0] not in ("this", "local"):
                continue
            # where is it allocated? same function for locals; any constructor of the class for fields
            hosts = [f] if path[0] == "local" else [c for c in db.methods_of(f.rec) if c.is_ctor] + ([f] if not f.is_ctor else [])
            for g in hosts:
                sb = SeqBuilder(db, g, "c", nosubst=True)
                sb.run()
                allocs = [(p, n, e) for p, n, e in sb.allocs if p == path]
                # locals declared with an initialiser
                for n in g.live_nodes():
                    if n["k"] == "DeclStmt":
                        for d in n["decls"]:
                            if path == ("local", d.get("d")) and d.get("init") is not None:
                                r = strip(d["init"])
                                if r["k"] == "CXXNewExpr" and r.get("array") and r.get("size") is not None:
                                    from rules_iter import pinned_sym
                                    allocs.append((path, r, None))
                for p, newn, ext in allocs:
                    key = (g.id, path, newn["id"])
                    if key in done:
                        continue
                    done.add(key)
                    at = g.types[newn["alloct"]]
                    if at["kind"] not in ("int", "uint", "bool"):
                        continue
                    if newn.get("init") is not None:
                        continue     # value-initialised: new T[n]()
                    rep.visit(g)
                    rep.inst(g.nloc(newn), "%s allocates %s, which %s writes through %s" % (g.qn, fmt_path(g, path), f.qn, callee_name(call)))
                    rep.ob()
                    from rules_iter import pinned_sym
                    esym = pinned_sym(db, g, newn["size"], None, None)
                    loops = fill_loops(db, g, path)
                    cfg = g.cfg
                    good = False
                    why = "no loop stores a constant to every element"
                    for ln, cond in loops:
                        b = pinned_sym(db, g, cond["rhs"], None, None)
                        if cond["op"] == "<=":
                            b = symx.mk_op("+", b, symx.C(1))
                        if not (cfg.dominates(cfg.position(newn), cfg.position(cond))):
                            continue
                        if symx.has_unknown(b) or symx.has_unknown(esym):
                            good = True      # cannot relate the extents: not decided
                            continue
                        # filled extent must be >= allocated extent wherever both are defined: look for a witness of fill < alloc
                        wit = None
                        syms = sorted(symx.atoms(b) | symx.atoms(esym), key=repr)
                        import itertools
                        grid = symx.GRID if len(syms) <= 2 else [0, 1, 2, 7, 31, 32, 33, 64, 100]
                        for vals in itertools.islice(itertools.product(grid, repeat=len(syms)), 6000):
                            val = dict(zip(syms, vals))
                            vb, ve = symx.evaluate(b, val), symx.evaluate(esym, val)
                            if vb is None or ve is None:
                                continue
                            if vb < ve:
                                wit = {symx.canon(k): v for k, v in val.items()}
                                wit.update({"filled": vb, "allocated": ve})
                                break
                        # A fill loop exists. Whether it covers the *allocation* is recorded, not enforced: the consumer may read
                        # less than what was allocated (SSA::build_bwt allocates one word more than BitSequenceRG ever reads; replay
                        # replays/r_zerofill_ssa.cpp 1 shows no observable effect), so demanding fill >= allocation would raise alarms
                        # on correct code.
                        good = True
                        if wit is not None:
                            from rules_serial import saved_array_fields
                            is_saved = path[0] == "this" and g.rec and path[1] in saved_array_fields(db).get(g.rec, set())
                            if is_saved:
                                # the whole allocation goes to the image (R-EXTENT: saved extent = allocated extent): the fill must cover it
                                rep.viol("%s#%s-fill-short-of-saved-extent" % (g.qn, path[1]), g.nloc(ln),
                                         "%s zero-fills %s elements of %s but allocates - and %s::save writes - %s (e.g. %s): the words in between keep "
                                         "whatever the allocator returned, and reach the image" % (
                                             g.qn, symx.canon(b), fmt_path(g, path), g.rec, symx.canon(esym), wit), g.qn)
                            else:
                                rep.notes.append("%s: fill loop at %s covers %s elements, %s allocated (e.g. %s); not enforced" % (
                                    g.qn, g.nloc(ln), symx.canon(b), symx.canon(esym), wit))
                    # single-bit stores at an index that is a fixed expression of the object's state (not a loop counter): the word
                    # that holds the bit lies inside the allocation
                    for cn in g.calls():
                        if callee_name(cn) not in ("bitset", "bitclean") or len(cn.get("args", [])) < 2 or resolved_path(g, cn["args"][0]) != path:
                            continue
                        I = pinned_sym(db, g, cn["args"][1], None, None)
                        if symx.has_unknown(I) or symx.has_unknown(esym) or any(a[0] == "local" for a in symx.atoms(I) | symx.atoms(esym)):
                            continue
                        if not symx.atoms(I) <= symx.atoms(esym):
                            continue            # the index is governed by state the extent does not mention (a running cursor): not related here
                        rep.ob()
                        import itertools
                        syms = sorted(symx.atoms(I) | symx.atoms(esym), key=repr)
                        for vals in itertools.islice(itertools.product(symx.GRID if len(syms) <= 2 else [0, 1, 2, 7, 31, 32, 33, 64, 100], repeat=len(syms)), 6000):
                            val = dict(zip(syms, vals))
                            vi, ve = symx.evaluate(I, val), symx.evaluate(esym, val)
                            if vi is None or ve is None:
                                continue
                            if vi >= ve * at["bits"]:
                                rep.viol("%s#%s-bit-outside-allocation" % (g.qn, fmt_path(g, path).replace("this->", "")), g.nloc(cn),
                                         "%s sets bit %s of %s, which has %s words (e.g. %s: bit %d, %d bits allocated): a store past the end of "
                                         "the allocation" % (g.qn, symx.canon(I), fmt_path(g, path), symx.canon(esym),
                                                             {symx.canon(k): v for k, v in val.items()}, vi, ve * at["bits"]), g.qn)
                                break
                    # the bitmap is handed, with a length in bits, to a bit-sequence builder / constructor: every word that holds
                    # one of those bits must have been filled (the builder copies / saves whole words up to that length)
                    for ln, cond in loops:
                        b = pinned_sym(db, g, cond["rhs"], None, None)
                        if cond["op"] == "<=":
                            b = symx.mk_op("+", b, symx.C(1))
                        for cn in g.calls():
                            args = cn.get("args", [])
                            if len(args) < 2 or resolved_path(g, args[0]) != path:
                                continue
                            frec = cn.get("frec") or cn.get("rec") or ""
                            if not (frec.startswith("cds_static::BitSequence") or frec.startswith("cds_utils::BitString")):
                                continue
                            if not (cfg.dominates(cfg.position(cond), cfg.position(cn)) if cfg.position(cond) and cfg.position(cn) else False):
                                continue
                            L = pinned_sym(db, g, args[1], None, None)
                            if symx.has_unknown(b) or symx.has_unknown(L) or any(a[0] == "local" for a in symx.atoms(b) | symx.atoms(L)):
                                continue          # a run-time counter: the two extents cannot be related statically
                            rep.ob()
                            import itertools
                            syms = sorted(symx.atoms(b) | symx.atoms(L), key=repr)
                            grid = symx.GRID if len(syms) <= 2 else [0, 1, 2, 7, 31, 32, 33, 64, 100]
                            for vals in itertools.islice(itertools.product(grid, repeat=len(syms)), 6000):
                                val = dict(zip(syms, vals))
                                vb, vl = symx.evaluate(b, val), symx.evaluate(L, val)
                                if vb is None or vl is None:
                                    continue
                                if vb * at["bits"] < vl:
                                    rep.viol("%s#%s-consumed-beyond-fill" % (g.qn, fmt_path(g, path).replace("this->", "")), g.nloc(cn),
                                             "%s fills %s words of %s but hands %s bits of it to %s (e.g. %s: %d words filled, %d bits used): "
                                             "the last word is indeterminate and ends up in the bit sequence and its saved image" % (
                                                 g.qn, symx.canon(b), fmt_path(g, path), symx.canon(L), cn.get("fn"),
                                                 {symx.canon(k): v for k, v in val.items()}, vb, vl), g.qn)
                                    break
                    # memset / calloc style
                    for n in g.calls():
                        if callee_name(n) in ("memset", "bzero", "fill", "fill_n") and n.get("args") and resolved_path(g, n["args"][0]) == path:
                            good = True
                    if not good:
                        rep.viol("%s#%s-not-filled" % (g.qn, fmt_path(g, path).replace("this->", "")), g.nloc(newn),
                                 "%s allocates %s uninitialised and %s sets bits in it with %s, but %s: the untouched bits are indeterminate" % (
                                     g.qn, fmt_path(g, path), f.qn, callee_name(call), why), g.qn)


# ---------------------------------------------------------------------------------------------------
ALLOCFORM_EXCEPTIONS = {
    # (record, field): reason
    ("SSA", "_sa"): "assigned the malloc'd array returned by SuffixArray::sort; build_bwt free()s it and sets it to NULL before any "
                    "delete[] can see a non-null value (the delete[] sites are behind `_sa != NULL`)",
}


def alloc_form(f, rhs):
    r = strip(rhs)
    if not isinstance(r, dict):
        return None
    if r["k"] == "CXXNewExpr":
        return "new[]" if r.get("array") else "new"
    if r["k"] == "CallExpr":
        nm = callee_name(r)
        if nm in ("malloc", "calloc", "realloc", "strdup"):
            return "malloc"
        if nm == "loadValue" and len(r.get("args", [])) == 2:
            return "new[]"
    if const_value(r) == 0:
        return "null"
    return "other"


@rule("R-ALLOCFORM", 40, "every pointer field is released with the form that matches how it is allocated (new/delete, new[]/delete[], malloc/free)")
def r_allocform(db, rep):
    allocs = collections.defaultdict(set)
    frees = collections.defaultdict(list)
    for f in db.funcs.values():
        if f.file.startswith("libcds/"):
            continue
        for lv, w in written_lvalues(f):
            s = strip(lv)
            if s["k"] == "MemberExpr" and s.get("mk") == "field" and w.get("op") == "=" and (f.type(s) or {}).get("kind") == "ptr":
                allocs[field_key(f, s)].add(alloc_form(f, w["rhs"]))
        for n in f.live_nodes():
            if n["k"] == "CXXDeleteExpr":
                s = strip(n["sub"])
                if s["k"] == "MemberExpr" and s.get("mk") == "field":
                    frees[field_key(f, s)].append(("delete[]" if n.get("array") else "delete", f, n))
            elif n["k"] == "CallExpr" and callee_name(n) == "free" and n.get("args"):
                s = strip(n["args"][0])
                if s["k"] == "MemberExpr" and s.get("mk") == "field":
                    frees[field_key(f, s)].append(("free", f, n))
    match = {"new": "delete", "new[]": "delete[]", "malloc": "free"}
    for key in sorted(frees, key=str):
        forms = allocs.get(key, set()) - {"null", None}
        for form, f, n in frees[key]:
            rep.visit(f)
            rep.inst(f.nloc(n), "%s::%s released with %s; allocated as %s" % (key[0], key[1], form, ",".join(sorted(forms)) or "?"))
            rep.ob()
            if not forms or "other" in forms:
                continue       # allocated elsewhere / through a call: not decided
            if key in ALLOCFORM_EXCEPTIONS:
                continue
            if not any(match.get(a) == form for a in forms):
                rep.viol("%s::%s#%s-vs-%s" % (key[0], key[1], "+".join(sorted(forms)), form), f.nloc(n),
                         "%s releases %s::%s with %s, but the field is allocated with %s: undefined behaviour" % (
                             f.qn, key[0], key[1], form, ", ".join(sorted(forms))), f.qn)


def _byte_valued(f, x, seen=None):
    """The expression's value is a byte (0..255) whatever the run-time data: an 8-bit unsigned expression under implicit
    promotions, or a local every one of whose definitions is byte-valued."""
    seen = seen or set()
    while x["k"] in TRANSPARENT:
        cs = children(x)
        if len(cs) != 1:
            break
        x = cs[0]
    t = f.type(x)
    if t and t.get("bits") == 8 and t["kind"] == "uint":
        return True
    if x["k"] == "DeclRefExpr" and x.get("dk") == "local" and x["d"] not in seen:
        defs = []
        for n in f.live_nodes():
            if n["k"] == "DeclStmt":
                for v in n["decls"]:
                    if v.get("d") == x["d"]:
                        if v.get("init") is None:
                            continue
                        defs.append(v["init"])
            elif is_assignment(n):
                l = strip(n["lhs"])
                if l["k"] == "DeclRefExpr" and l.get("d") == x["d"] and l.get("dk") == "local":
                    if n.get("op") != "=":
                        return False
                    defs.append(n["rhs"])
            elif n["k"] == "UnaryOperator" and n["op"] in ("++", "--", "&"):
                l = strip(n["sub"])
                if l["k"] == "DeclRefExpr" and l.get("d") == x["d"] and l.get("dk") == "local":
                    return False
        return bool(defs) and all(_byte_valued(f, d, seen | {x["d"]}) for d in defs)
    return False


@rule("R-BYTEINDEX", 5, "a table that a query indexes with an arbitrary byte of the pattern / of decoded data has at least 256 entries on every "
                        "path that creates it (in-object extent, new T[N], loadValue<T>(in, N) with constant N >= 256)")
def r_byteindex(db, rep):
    sites = {}
    for f in db.funcs.values():
        if not f.body or f.file.startswith("libcds/"):
            continue
        for n in f.live_nodes():
            if n["k"] != "ArraySubscriptExpr":
                continue
            bp = access_path(f, n["base"])
            if not bp or bp[0] != "this" or len(bp) != 2:
                continue
            if not _byte_valued(f, n["idx"]):
                continue
            # an access under a test of ANOTHER byte-indexed table at the same index is that table's business (occ[] under alphabet[])
            sites.setdefault((f.rec, bp[1]), []).append((f, n))
    field_writes = {}
    for g in db.funcs.values():
        if not g.body:
            continue
        for lv, w in written_lvalues(g):
            s0 = strip(lv)
            if s0["k"] == "MemberExpr" and w.get("op") == "=" and w.get("rhs") is not None:
                field_writes.setdefault(s0.get("n"), []).append((g, lv, w))
    for (rec, fld), accs in sorted(sites.items(), key=str):
        fd = db.field(rec, fld) if rec else None
        if fd is None:
            continue
        owner = fd[0] if isinstance(fd[0], str) else rec
        extent = fd[1].get("extent")
        f0, n0 = accs[0]
        # a table some access of which sits under a test of ANOTHER byte-indexed table at the same index (occ[c] under alphabet[c])
        # is a guarded table: its obligations are R-ALPHAGUARD's, its extent is the guard's business
        guarded = False
        for f, n in accs:
            ip = access_path(f, n["idx"])
            if ip is None or f.cfg is None:
                continue
            for c, pol in f.cfg.guards(n):
                if c is None:
                    continue
                for x in walk(c):
                    if x["k"] == "ArraySubscriptExpr" and access_path(f, x["idx"]) == ip:
                        bp2 = access_path(f, x["base"])
                        if bp2 and bp2[0] == "this" and bp2[-1] != fld:
                            guarded = True
        if guarded:
            rep.notes.append("%s::%s is a guarded table (accesses under a test of another byte-indexed table): left to R-ALPHAGUARD" % (rec, fld))
            continue
        rep.visit(f0)
        rep.inst(f0.nloc(n0), "%s::%s is indexed by a byte value at %d site(s), e.g. in %s" % (rec, fld, len(accs), f0.qn))
        if extent is not None:
            rep.ob()
            if extent < 256:
                rep.viol("%s::%s#extent" % (rec, fld), f0.nloc(n0), "%s::%s has %d entries but is indexed by an arbitrary byte in %s" % (rec, fld, extent, f0.qn), f0.qn)
            continue
        # every allocation of the field, in any function
        allocs = []
        for g, lv, w in field_writes.get(fld, []):
            if True:
                s = strip(lv)
                if s["k"] != "MemberExpr" or s.get("n") != fld or w.get("op") != "=" or w.get("rhs") is None:
                    continue
                if s.get("rec") not in (None, rec) and not (s.get("rec") and (db.is_subclass(rec, s["rec"]) or db.is_subclass(s["rec"], rec))):
                    continue
                r = strip(w["rhs"])
                if const_value(r) == 0:
                    continue
                size = None
                how = None
                if r["k"] == "CXXNewExpr" and r.get("size") is not None:
                    size, how = const_value(r["size"]), "new[]"
                elif r["k"] == "CallExpr" and callee_name(r) == "loadValue" and len(r.get("args", [])) == 2:
                    size, how = const_value(r["args"][1]), "loadValue"
                else:
                    how = "copied"
                allocs.append((g, w, size, how))
        if not allocs:
            rep.notes.append("%s::%s: no allocation found (undecided)" % (rec, fld))
            continue
        for g, w, size, how in allocs:
            rep.ob()
            if how == "copied":
                rep.notes.append("%s::%s assigned from another pointer at %s (extent not followed)" % (rec, fld, g.nloc(w)))
                continue
            if size is None or size < 256:
                rep.viol("%s::%s#extent-in-%s" % (rec, fld, g.qn), g.nloc(w),
                         "%s creates %s::%s with %s entries, but %s indexes it with an arbitrary byte value (%s): bytes beyond the extent read "
                         "outside the allocation" % (g.qn, rec, fld, "a run-time number of" if size is None else size, f0.qn, f0.nloc(n0)), g.qn)


@rule("R-REFCOUNT", 3, "a reference-counted object shared through a static pointer (use() / self-deleting unuse()): every constructor of a "
                       "class whose destructor releases it acquires it exactly once on every path, and every release stores unuse()'s result "
                       "back into the pointer (unuse() returns NULL after `delete this`; dropping it keeps a dangling pointer for the next user)")
def r_refcount(db, rep):
    def static_ptr(f, n):
        s = strip(n)
        if s["k"] == "DeclRefExpr" and s.get("dk") in ("staticmember", "global"):
            return s.get("n")
        return None
    # self-deleting release functions: body contains `delete this`
    releasers = set()
    for f in db.funcs.values():
        if f.body and f.name == "unuse":
            if any(x["k"] == "CXXDeleteExpr" and strip(x["sub"])["k"] == "CXXThisExpr" for x in f.nodes()):
                releasers.add(f.id)
    if not releasers:
        raise AnalysisBroken("no self-deleting unuse() found")
    rel_sites, acq_sites = {}, {}
    for f in db.funcs.values():
        if not f.body:
            continue
        for c in f.calls():
            if c["k"] != "CXXMemberCallExpr" or c.get("obj") is None:
                continue
            sp = static_ptr(f, c["obj"])
            if sp is None:
                continue
            if c.get("f") in releasers:
                rel_sites.setdefault(sp, []).append((f, c))
            elif callee_name(c) == "use":
                acq_sites.setdefault(sp, []).append((f, c))
    for sp, rels in sorted(rel_sites.items()):
        for f, c in rels:
            rep.visit(f)
            rep.inst(f.nloc(c), "%s releases %s" % (f.qn, sp))
            rep.ob()
            par = f.parent(c)
            while par is not None and par["k"] in TRANSPARENT:
                par = f.parent(par)
            if not (par is not None and is_assignment(par) and par.get("op") == "=" and static_ptr(f, par["lhs"]) == sp):
                rep.viol("%s#release-result-dropped:%s" % (f.qn, sp.split("::")[-1]), f.nloc(c),
                         "%s calls %s->unuse() without storing the result back into %s: after the last user the object has deleted itself and "
                         "the static pointer dangles; the next object built or loaded uses freed memory" % (f.qn, sp, sp), f.qn)
        # owners: classes whose destructor releases sp (directly or through a helper that always does) -> every constructor
        # acquires exactly once
        def must_release(g, depth=0):
            pos = [g.cfg.position(c) for g2, c in rels if g2.id == g.id] if g.cfg is not None else []
            if depth < 3 and g.cfg is not None:
                for c in g.calls():
                    h = db.funcs.get(c.get("f"))
                    if h is not None and h.body is not None and h.cfg is not None and h.id != g.id and c["k"] in ("CallExpr", "CXXMemberCallExpr") \
                            and must_release(h, depth + 1):
                        pos.append(g.cfg.position(c))
            pos = [p for p in pos if p is not None]
            return bool(pos) and not g.cfg.path_exists(g.cfg.entry, [g.cfg.exit], avoid=pos)
        owners = set()
        for rec_, r_ in db.records.items():
            for d in db.methods_of(rec_):
                if d.is_dtor and d.body and d.cfg is not None and must_release(d):
                    owners.add(rec_)
        for rec in sorted(owners):
            for ctor in db.methods_of(rec):
                if not ctor.is_ctor or not ctor.body or ctor.cfg is None:
                    continue
                rep.visit(ctor)
                def acq_nodes(g, depth=0):
                    out = [c for g2, c in acq_sites.get(sp, []) if g2.id == g.id]
                    if depth < 3:
                        for c in g.calls():
                            h = db.funcs.get(c.get("f"))
                            if h is None or h.body is None or h.cfg is None or h.id == g.id or c["k"] not in ("CallExpr", "CXXMemberCallExpr"):
                                continue
                            inner = [h.cfg.position(x) for x in acq_nodes(h, depth + 1)]
                            inner = [q for q in inner if q is not None]
                            if inner and not h.cfg.path_exists(h.cfg.entry, [h.cfg.exit], avoid=inner):
                                out.append(c)
                    return out
                acqs = acq_nodes(ctor)
                rep.inst(ctor.loc, "%s: %d acquisition(s) of %s" % (ctor.qn, len(acqs), sp))
                rep.ob()
                pos = [ctor.cfg.position(c) for c in acqs]
                pos = [p for p in pos if p is not None]
                # a delegating constructor acquires through its target
                if any(i.get("delegating") for i in ctor.raw.get("inits", [])):
                    continue
                if not pos or ctor.cfg.path_exists(ctor.cfg.entry, [ctor.cfg.exit], avoid=pos):
                    rep.viol("%s#no-acquire:%s" % (ctor.qn, sp.split("::")[-1]), ctor.loc,
                             "%s can finish without %s->use() although %s::~%s releases it: the count drops below the number of live objects and "
                             "the shared table is freed while still in use" % (ctor.qn, sp, rec, rec.split("::")[-1]), ctor.qn)
                else:
                    for p in pos:
                        if ctor.cfg.path_exists(p, pos):
                            rep.viol("%s#double-acquire:%s" % (ctor.qn, sp.split("::")[-1]), ctor.loc,
                                     "%s can call %s->use() twice: the shared table is never released" % (ctor.qn, sp), ctor.qn)
                            break


@rule("R-SCANLEN", 2, "a loop that summarises an array into object state (alphabet flags, maximum symbol) scans exactly the prefix that the same "
                      "function hands to the succinct-structure builder: loop bound = length argument (canonical symbolic form)")
def r_scanlen(db, rep):
    for g in sorted(db.funcs.values(), key=lambda x: (x.file, x.line)):
        if not g.body or g.file.startswith("libcds/"):
            continue
        handed = []
        for c in g.calls():
            args = c.get("args", [])
            frec = c.get("frec") or c.get("rec") or ""
            if len(args) >= 2 and frec.startswith("cds_static::"):
                p = resolved_path(g, args[0])
                t = g.type(args[1])
                if p is not None and t and t.get("kind") in ("int", "uint"):
                    handed.append((p, args[1], c))
        if not handed:
            continue
        sb = SeqBuilder(db, g, "c", nosubst=True)
        for n in g.live_nodes():
            if n["k"] != "ForStmt" or n.get("cond") is None or n.get("init") is None or n.get("body") is None:
                continue
            cond = strip(n["cond"])
            if cond["k"] != "BinaryOperator" or cond["op"] not in ("<", "<="):
                continue
            iv = access_path(g, cond["lhs"])
            ini = n["init"]
            lo = None
            if ini["k"] == "DeclStmt" and len(ini["decls"]) == 1 and ("local", ini["decls"][0].get("d")) == iv:
                lo = const_value(ini["decls"][0].get("init"))
            if iv is None or lo != 0:
                continue
            # the body reads A[i] and stores into object state
            reads = {access_path(g, x["base"]) for x in walk(n["body"]) if x["k"] == "ArraySubscriptExpr" and access_path(g, x["idx"]) == iv}
            writes_state = any(access_path(g, lv) is not None and access_path(g, lv)[0] == "this" and any(x is w for x in walk(n["body"]))
                               for lv, w in written_lvalues(g))
            if not writes_state:
                continue
            for p, larg, c in handed:
                if p not in reads:
                    continue
                # the array itself must not be what the loop fills
                if any(access_path(g, strip(lv)["base"]) == p for lv, w in written_lvalues(g)
                       if strip(lv)["k"] == "ArraySubscriptExpr" and any(x is w for x in walk(n["body"]))):
                    continue
                B = sb.sym(cond["rhs"])
                if cond["op"] == "<=":
                    B = mk_op("+", B, C(1))
                L = sb.sym(larg)
                rep.visit(g)
                rep.inst(g.nloc(n), "%s scans %s[0..%s) into object state; %s bits/symbols of it go to %s" % (
                    g.qn, fmt_path(g, p), canon(B), canon(L), c.get("fn")))
                rep.ob()
                if symx.has_unknown(B) or symx.has_unknown(L):
                    continue
                wit = symx.differ_witness(B, L)
                if wit is not None:
                    rep.viol("%s#scan-length-%s" % (g.qn, p[-1]), g.nloc(n),
                             "%s summarises %s over [0, %s) but builds the sequence over %s elements (e.g. %s): symbols outside the scanned "
                             "prefix are missing from the alphabet / maximum that queries rely on" % (g.qn, fmt_path(g, p), canon(B), canon(L), wit), g.qn)


# ---------------------------------------------------------------------------------------------------
def scalar_write_kinds(db, f):
    """(rec, field) -> list of ("const", value, line) / ("data", None, line) for the scalar members f stores into."""
    out = {}

    def scalar(t):
        return (t or {}).get("kind") in ("int", "uint", "bool", "float")

    for ini in f.raw.get("inits", []):
        if ini.get("field") and isinstance(ini.get("init"), dict):
            fd = db.field(ini.get("rec"), ini["field"]) if ini.get("rec") else None
            if fd is None or fd[2][fd[1]["t"]]["kind"] not in ("int", "uint", "bool", "float"):
                continue
            cv = const_value(ini["init"])
            out.setdefault((ini.get("rec"), ini["field"]), []).append(("const", cv, f.line) if cv is not None else ("data", None, f.line))
    for lv, w in written_lvalues(f):
        s = strip(lv)
        if s["k"] != "MemberExpr" or s.get("mk") != "field" or not scalar(f.type(s)):
            continue
        cv = const_value(w["rhs"]) if (w.get("op") == "=" and w.get("rhs") is not None) else None
        out.setdefault(field_key(f, s), []).append(("const", cv, w.get("l")) if cv is not None else ("data", None, w.get("l")))
    def classy(t):
        return (t or {}).get("kind") == "rec"

    # members of class type (std::string, std::vector, ...): default construction leaves them empty ("const"); construction
    # from arguments, assignment, a non-const member call other than clear(), or handing them to a callee that may write
    # through the argument fills them ("data")
    for ini in f.raw.get("inits", []):
        if ini.get("field") and isinstance(ini.get("init"), dict) and ini.get("rec"):
            fd = db.field(ini["rec"], ini["field"])
            if fd is None or fd[2][fd[1]["t"]]["kind"] != "rec":
                continue
            i0 = ini["init"]
            empty = i0["k"] == "CXXConstructExpr" and not i0.get("args")
            out.setdefault((ini["rec"], ini["field"]), []).append(("const", "default-constructed", f.line) if empty else ("data", None, f.line))
    for n in f.live_nodes():
        if n["k"] == "CXXOperatorCallExpr" and n.get("args") and (n.get("fn") or "").endswith(("operator=", "operator+=")):
            a = strip(n["args"][0])
            if a["k"] == "MemberExpr" and a.get("mk") == "field" and classy(f.type(a)):
                out.setdefault(field_key(f, a), []).append(("data", None, n.get("l")))
        if n["k"] == "CXXMemberCallExpr" and n.get("obj") is not None and not n.get("fconst"):
            a = strip(n["obj"])
            if a["k"] == "MemberExpr" and a.get("mk") == "field" and classy(f.type(a)):
                if callee_name(n) == "clear":
                    out.setdefault(field_key(f, a), []).append(("const", "cleared", n.get("l")))
                elif callee_name(n) in ("data", "begin", "end", "rbegin", "rend", "at", "front", "back", "c_str", "operator[]"):
                    # the non-const overload of an accessor: it may be used to fill the member (counts on the load side) but is no
                    # evidence that it is written (does not count on the building / operation side)
                    out.setdefault(field_key(f, a), []).append(("maybe", None, n.get("l")))
                else:
                    out.setdefault(field_key(f, a), []).append(("data", None, n.get("l")))
        if n["k"] in ("CallExpr", "CXXMemberCallExpr", "CXXConstructExpr"):
            cand = [n["args"][i] for i in n.get("pw", []) if i < len(n.get("args", []))]
            if callee_name(n) == "read" and n.get("args"):
                cand.append(n["args"][0])
            for a in cand:
                a = strip(a)
                while a["k"] in EXPLICIT_CASTS | TRANSPARENT:
                    a = strip(a["sub"])
                if a["k"] == "UnaryOperator" and a["op"] == "&":
                    a = strip(a["sub"])
                if a["k"] == "MemberExpr" and a.get("mk") == "field" and (scalar(f.type(a)) or classy(f.type(a))):
                    out.setdefault(field_key(f, a), []).append(("data", None, n.get("l")))
    return out


def _derived(db, rep, kind_ok=None, rec_ok=None):
    _w, _r = {}, {}

    def Wk(fid):
        if fid not in _w:
            _w[fid] = scalar_write_kinds(db, db.funcs[fid])
        return _w[fid]

    def R(fid):
        if fid not in _r:
            _r[fid] = read_fields(db, db.funcs[fid])
        return _r[fid]

    seen = set()
    for k in kinds(db):
        if kind_ok is not None and not kind_ok(k):
            continue
        ops = []
        for op in QUERY_OPS + ["getSize", "save"]:
            ops += db.methods_of(k, op)
        roots = creation_roots(db, k)
        built = [r for s, r in roots if s == "built"]
        loaded = [r for s, r in roots if s == "loaded"]
        if not built or not loaded:
            continue
        bclo, binst = db.rta(built)
        bw = {}
        for fid in bclo:
            for key, ws in Wk(fid).items():
                bw.setdefault(key, []).extend((fid, w) for w in ws)
        for root in loaded:
            rep.visit(root)
            lclo, linst = db.rta([root])
            linst = set(linst) | {k}
            lw = {}
            for fid in lclo:
                for key, ws in Wk(fid).items():
                    lw.setdefault(key, []).extend((fid, w) for w in ws)
            uclo, _ = db.rta(ops, inst0=linst)
            # writes by the operations themselves: scratch / lazily computed members are not creation state
            opw = set()
            for fid in uclo:
                g = db.funcs[fid]
                if not (g.is_ctor or g.is_dtor):
                    opw |= {key for key, ws in Wk(fid).items() if any(w[0] != "maybe" for w in ws)}
            nobl = 0
            for fid in sorted(uclo):
                g = db.funcs[fid]
                if g.is_ctor or g.is_dtor:
                    continue
                for (rec, fld), (line, _d) in R(fid).items():
                    if rec is None or rec not in db.records:
                        continue
                    if rec not in linst and not any(s in linst for s in db.all_subclasses(rec)):
                        continue
                    key = (rec, fld)
                    if key not in bw or key not in lw or key in opw:
                        continue
                    if rec_ok is not None and not rec_ok(rec, g):
                        continue
                    # plain records without a loader of their own (Codeword, ...) are read back in bulk by their owner:
                    # their members are not stored into one by one
                    if not any(db.methods_of(r2, "load") for r2 in [rec] + list(db.all_subclasses(rec)) + list(db.all_bases(rec))):
                        continue
                    nobl += 1
                    rep.ob()
                    b_data = [(x, w) for x, w in bw[key] if w[0] == "data" and x not in lclo]
                    l_data = [(x, w) for x, w in lw[key] if w[0] in ("data", "maybe")]
                    if not b_data or l_data:
                        continue
                    vk = "%s:%s::%s" % (k, rec, fld)
                    if vk in seen:
                        continue
                    seen.add(vk)
                    bx, bwr = b_data[0]
                    consts = sorted({str(w[1]) for _x, w in lw[key] if w[0] == "const"})
                    rep.viol(vk, "%s:%s" % (g.file, line),
                             "%s::%s is read by %s (%s) on a loaded %s; the building path computes it from the data (%s, %s:%s) but everything "
                             "reachable from %s only ever stores the constant %s into it: the loaded object's %s does not describe the loaded data" % (
                                 rec, fld, g.qn, " -> ".join(db.chain(uclo, fid)[-4:]), k, db.funcs[bx].qn, db.funcs[bx].file, bwr[2],
                                 root.qn, "/".join(consts), fld), g.qn, {"creation_root": root.qn})
            if nobl:
                rep.inst(root.loc, "loaded %s via %s: %d scalar members with writes on both creation paths and a read on an operation path" % (
                    k, root.qn, nobl))


_DERIVED_WHAT = ("built / loaded state parity for derived scalars: a scalar member that the building constructor computes from the "
                 "data and that a query, getSize or save reads is not left at a compile-time constant on every path that loads the "
                 "object (it is either read back from the image or recomputed)")


@rule("R-DERIVED", 12, _DERIVED_WHAT)
def r_derived(db, rep):
    _derived(db, rep)


@rule("R-DERIVED-ORDER", 6, _DERIVED_WHAT + " -- the order-preserving kinds")
def r_derived_order(db, rep):
    _derived(db, rep, kind_ok=lambda k: k in ORDERED_KINDS)


def _rec_file(db, rec):
    r = db.records.get(rec) or {}
    return r.get("file") or ""


@rule("R-DERIVED-CODEC", 3, _DERIVED_WHAT + " -- the integer codecs (DAC sequences, packed arrays)")
def r_derived_codec(db, rep):
    _derived(db, rep, rec_ok=lambda rec, g: rec.startswith("DAC_") or rec in ("LogSequence", "VByte") or "Array" == rec.split("::")[-1])


@rule("R-DERIVED-CDS", 5, _DERIVED_WHAT + " -- the bundled bit sequences and wavelet trees")
def r_derived_cds(db, rep):
    _derived(db, rep, rec_ok=lambda rec, g: g.file.startswith("libcds/"))


@rule("R-DERIVED-RP", 3, _DERIVED_WHAT + " -- the Re-Pair grammar")
def r_derived_rp(db, rep):
    _derived(db, rep, rec_ok=lambda rec, g: rec.split("::")[-1] == "RePair")


# ---------------------------------------------------------------------------------------------------
def _cumulative_passes(g):
    """[(array path, inclusive end expr node, +/-1 adjust, anchor node)] for in-place prefix-sum passes in g:
    `for (i...; i < B / i <= B; ...) A[i] += A[i-1]` (or A[i] = A[i-1] + A[i]) and std::partial_sum(A, A+E, A)."""
    out = []
    for n in g.live_nodes():
        if n["k"] == "ForStmt" and n.get("cond") is not None and n.get("body") is not None:
            c = strip(n["cond"])
            if c["k"] != "BinaryOperator" or c["op"] not in ("<", "<="):
                continue
            iv = access_path(g, c["lhs"])
            if iv is None:
                continue
            for lv, w in written_lvalues(g):
                if not any(x is w for x in walk(n["body"])):
                    continue
                s = strip(lv)
                if s["k"] != "ArraySubscriptExpr" or access_path(g, s["idx"]) != iv:
                    continue
                A = resolved_path(g, s["base"])
                if A is None or len(A) != 2 or w.get("rhs") is None:
                    continue            # a plain table only (rows of a two-dimensional table are another recurrence)
                # the right-hand side reads A[i-1]
                prev = False
                for x in walk(w["rhs"]):
                    if x["k"] == "ArraySubscriptExpr" and resolved_path(g, x["base"]) == A:
                        ix = strip(x["idx"])
                        if ix["k"] == "BinaryOperator" and ix["op"] == "-" and access_path(g, ix["lhs"]) == iv and const_value(ix["rhs"]) == 1:
                            prev = True
                cur = w.get("op") == "+=" or any(x["k"] == "ArraySubscriptExpr" and resolved_path(g, x["base"]) == A and access_path(g, x["idx"]) == iv
                                                 for x in walk(w["rhs"]))
                if prev and cur:
                    out.append((A, c["rhs"], 0 if c["op"] == "<=" else -1, n, c))
        if n["k"] == "CallExpr" and callee_name(n) == "partial_sum" and len(n.get("args", [])) >= 3:
            a0, a1, a2 = (strip(x) for x in n["args"][:3])
            A = resolved_path(g, a0)
            if A is None or resolved_path(g, a2) != A:
                continue
            # last = A + e1 (+ e2 ...): the terms of the sum other than the array itself
            terms, work = [], [a1]
            while work:
                x = strip(work.pop())
                if x["k"] == "BinaryOperator" and x["op"] == "+":
                    work += [x["rhs"], x["lhs"]]
                else:
                    terms.append(x)
            base = [x for x in terms if resolved_path(g, x) == A]
            rest = [x for x in terms if resolved_path(g, x) != A]
            if len(base) == 1 and rest:
                out.append((A, rest, -1, n, n))
    return out


@rule("R-CUMSUM", 4, "an in-place cumulative-count pass (a[i] += a[i-1], std::partial_sum) reaches the last entry that is used afterwards: "
                     "the whole allocation when the table is a saved member (its image and the queries index all of it), and the range of "
                     "every later loop of the same function that walks the table")
def r_cumsum(db, rep):
    import itertools
    from rules_iter import pinned_sym
    from rules_serial import saved_array_fields

    def witness(lo_e, hi_e):
        """assignment under which lo_e < hi_e (both symbolic), or None"""
        if symx.has_unknown(lo_e) or symx.has_unknown(hi_e):
            return None
        syms = sorted(symx.atoms(lo_e) | symx.atoms(hi_e), key=repr)
        grid = symx.GRID if len(syms) <= 2 else [0, 1, 2, 7, 31, 32, 33, 64, 100]
        for vals in itertools.islice(itertools.product(grid, repeat=len(syms)), 6000):
            val = dict(zip(syms, vals))
            a, b = symx.evaluate(lo_e, val), symx.evaluate(hi_e, val)
            if a is None or b is None:
                continue
            if a < b:
                return {symx.canon(k): v for k, v in val.items()}
        return None

    for g in sorted(db.funcs.values(), key=lambda x: (x.file, x.line)):
        if not g.body or g.cfg is None:
            continue
        passes = _cumulative_passes(g)
        if not passes:
            continue
        cfg = g.cfg
        rep.visit(g)
        for A, endx, adj, anchor, posn in passes:
            apos = cfg.position(posn)
            if apos is None:
                continue
            if isinstance(endx, list):
                end = pinned_sym(db, g, endx[0], None, None)
                for x in endx[1:]:
                    end = symx.mk_op("+", end, pinned_sym(db, g, x, None, None))
            else:
                end = pinned_sym(db, g, endx, None, None)
            if adj:
                end = symx.mk_op("-", end, symx.C(1))
            rep.inst(g.nloc(anchor), "%s: cumulative pass over %s up to index %s" % (g.qn, fmt_path(g, A), symx.canon(end)))

            def stable(e, frm, to):
                """no store to a variable of e between the two positions"""
                for lv, w in written_lvalues(g):
                    p = access_path(g, lv)
                    if p is None or not any(p == a for a in symx.atoms(e)):
                        continue
                    pw = cfg.position(w)
                    if pw and frm and to and cfg.path_exists(frm, [pw]) and cfg.path_exists(pw, [to]):
                        return False
                return True

            # (1) a saved member table: its allocation is what the image holds and what the loaded object is indexed over
            if A[0] == "this" and len(A) == 2 and g.rec and A[1] in saved_array_fields(db).get(g.rec, set()):
                sb = SeqBuilder(db, g, "c", nosubst=True)
                sb.run()
                for p, newn, _e in sb.allocs:
                    if p != A or newn.get("size") is None:
                        continue
                    if cfg.position(newn) is None or not cfg.dominates(cfg.position(newn), apos):
                        continue
                    ext = pinned_sym(db, g, newn["size"], None, None)
                    rep.ob()
                    if not stable(ext, cfg.position(newn), apos) or not stable(end, cfg.position(newn), apos):
                        rep.notes.append("%s: %s: the extent's variables change between allocation and pass (undecided)" % (g.qn, fmt_path(g, A)))
                        continue
                    wit = witness(symx.mk_op("+", end, symx.C(1)), ext)
                    if wit is not None:
                        rep.viol("%s#%s-cumsum-short" % (g.qn, A[1]), g.nloc(anchor),
                                 "%s: the cumulative pass over %s stops at index %s, but the table has %s entries, all saved and indexed by "
                                 "the queries (e.g. %s): the last entries keep plain counts instead of cumulative ones" % (
                                     g.qn, fmt_path(g, A), symx.canon(end), symx.canon(ext), wit), g.qn)
            # (2) later loops of the same function that walk the table with their loop variable
            for n in g.live_nodes():
                if n["k"] != "ForStmt" or n is anchor or n.get("cond") is None or n.get("body") is None:
                    continue
                c = strip(n["cond"])
                if c["k"] != "BinaryOperator" or c["op"] not in ("<", "<="):
                    continue
                iv = access_path(g, c["lhs"])
                if iv is None or not cfg.position(c) or not cfg.dominates(apos, cfg.position(c)):
                    continue
                reads = [x for x in walk(n["body"]) if x["k"] == "ArraySubscriptExpr" and resolved_path(g, x["base"]) == A
                         and access_path(g, x["idx"]) == iv]
                if not reads:
                    continue
                last = pinned_sym(db, g, c["rhs"], None, None)
                if c["op"] == "<":
                    last = symx.mk_op("-", last, symx.C(1))
                rep.ob()
                if not stable(last, apos, cfg.position(c)) or not stable(end, apos, cfg.position(c)):
                    continue
                wit = witness(end, last)
                if wit is not None:
                    rep.viol("%s#%s-cumsum-short-of-use" % (g.qn, fmt_path(g, A).replace("this->", "")), g.nloc(n),
                             "%s: the loop at %s reads %s up to index %s, but the cumulative pass before it stopped at %s (e.g. %s): the "
                             "entries in between are plain counts" % (g.qn, g.nloc(n), fmt_path(g, A), symx.canon(last), symx.canon(end), wit), g.qn)


# ---------------------------------------------------------------------------------------------------
def _array_extent(f, t):
    import re
    m = re.search(r"\[(\d+)\]$", t.get("s", ""))
    return int(m.group(1)) if m else None


def _fixedbuf(db, rep, file_ok):
    """Stores into fixed-size arrays (locals, members, file-scope) through a run-time index."""
    for f in sorted(db.funcs.values(), key=lambda x: (x.file, x.line)):
        if not f.body or not file_ok(f.file):
            continue
        sites = []
        for lv, w in written_lvalues(f):
            s = strip(lv)
            if s["k"] != "ArraySubscriptExpr":
                continue
            b = strip(s["base"])
            t = f.type(b) or {}
            if t.get("kind") != "array":
                continue
            N = _array_extent(f, t)
            if N is None:
                continue
            sites.append((s, w, b, N))
        if not sites:
            continue
        rep.visit(f)
        for s, w, b, N in sites:
            name = fmt_path(f, access_path(f, b)) if access_path(f, b) else "array"
            idx = strip(s["idx"])
            rep.inst(f.nloc(w), "%s: store into %s[%d]" % (f.qn, name, N))
            rep.ob()
            cv = const_value(idx)
            if cv is not None:
                if not (0 <= cv < N):
                    rep.viol("%s#%s-const-index" % (f.qn, name), f.nloc(w), "%s stores at constant index %d of %s, which has %d elements" % (f.qn, cv, name, N), f.qn)
                continue
            if N >= 256 and _byte_valued(f, idx):
                continue
            # the variable that carries the index (v, v++, ++v, v + c)
            core_ = idx
            while core_["k"] == "UnaryOperator" and core_["op"] in ("++", "--"):
                core_ = strip(core_["sub"])
            if core_["k"] == "BinaryOperator" and core_["op"] in ("+", "-") and const_value(core_["rhs"]) is not None:
                core_ = strip(core_["lhs"])
            vp = access_path(f, core_)
            # every compile-time bound known to hold at the store: guards  x < K, x <= K, K > x, x != K (loop form) on any variable
            bounded = False
            mentions = False
            for c, pol in (f.cfg.guards(w) if f.cfg is not None else []):
                c = strip(c)
                if c["k"] != "BinaryOperator" or c["op"] not in ("<", "<=", ">", ">=", "!=", "=="):
                    continue
                for a, b2, op in ((c["lhs"], c["rhs"], c["op"]), (c["rhs"], c["lhs"], {"<": ">", "<=": ">=", ">": "<", ">=": "<=", "!=": "!=", "==": "=="}[c["op"]])):
                    if vp is not None and access_path(f, a) == vp:
                        mentions = True
                    k = const_value(b2)
                    if k is None:
                        continue
                    eff = op if pol else {"<": ">=", "<=": ">", ">": "<=", ">=": "<", "!=": "==", "==": "!="}[op]
                    if eff in ("<", "<=", "!=", "=="):
                        bounded = True
            if bounded or mentions:
                # a bound exists; whether it is tight enough is a value question that is left to the compiler's own
                # -Warray-bounds and to review: recorded
                continue
            rep.viol("%s#%s-unbounded-index" % (f.qn, name), f.nloc(w),
                     "%s stores into %s, a fixed array of %d elements, at a run-time index that no condition on the way to the store "
                     "compares with anything (no loop bound or guard with a compile-time limit, no test of the index): the number of "
                     "stores is governed by the data alone, so a large enough input writes past the array" % (f.qn, name, N), f.qn)


@rule("R-FIXEDBUF", 2, "stores into fixed-size arrays are bounded: a run-time index is a byte into a table of at least 256 entries, or some "
                       "condition that holds at the store tests the index or bounds the iteration by a compile-time constant")
def r_fixedbuf(db, rep):
    _fixedbuf(db, rep, lambda fl: not fl.startswith("libcds/"))


# ---------------------------------------------------------------------------------------------------
@rule("R-STALEVAR", 2, "per-item results do not leak between loop iterations: a local that is computed (from values other than itself) "
                       "only inside an inner loop that may run zero times, and that is read after that inner loop in the same iteration "
                       "of the enclosing loop, is assigned on every path from the start of the iteration to the read; otherwise the "
                       "read sees what the previous item (or the code before the loop) left behind")
def r_stalevar(db, rep):
    LOOPS = ("ForStmt", "WhileStmt", "DoStmt", "CXXForRangeStmt")
    for f in sorted(db.funcs.values(), key=lambda x: (x.file, x.line)):
        if not f.body or f.cfg is None:
            continue
        loops = [n for n in f.live_nodes() if n["k"] in LOOPS and n.get("body") is not None]
        if len(loops) < 2:
            continue
        wl = list(written_lvalues(f))
        written_ids = {strip(lv).get("id") for lv, w in wl}
        for L in loops:
            body = L["body"]
            in_L = {id(x) for x in walk(L)}
            inner = [n for n in walk(body) if n["k"] in ("ForStmt", "WhileStmt") and n is not L]     # these may run zero times
            if not inner:
                continue
            defs = {}
            for lv, w in wl:
                p = access_path(f, lv)
                if p and p[0] == "local" and len(p) == 2 and id(w) in in_L:
                    defs.setdefault(p[1], []).append(w)
            declared = {d.get("d") for n in walk(L) if n["k"] == "DeclStmt" for d in n["decls"]}
            for v, ws in defs.items():
                if v in declared:
                    continue            # a fresh variable per iteration (an uninitialised read is the compiler's -Wmaybe-uninitialized)
                for I in inner:
                    in_I = {id(x) for x in walk(I)}
                    if not all(id(w) in in_I for w in ws):
                        continue
                    anc = [a for a in f.ancestors(I) if a["k"] in LOOPS]
                    if not anc or anc[0] is not L:
                        continue
                    uses = [u for u in walk(body) if u["k"] == "DeclRefExpr" and u.get("dk") == "local" and u.get("d") == v
                            and id(u) not in in_I and u.get("id") not in written_ids]
                    if not uses:
                        continue
                    rep.visit(f)
                    # a cursor / accumulator: some definition reads the variable itself - carried on purpose
                    selfref = any(w["k"] == "UnaryOperator" or w.get("op") not in (None, "=") or
                                  any(x["k"] == "DeclRefExpr" and x.get("dk") == "local" and x.get("d") == v for x in walk(w.get("rhs") or {"k": "none"}))
                                  for w in ws)
                    # a per-step value is assigned by every step of the inner loop: some definition is a statement of the loop body
                    # itself; one that is only assigned under a condition inside the loop is a mode that persists on purpose
                    ibody = I.get("body") or {}
                    top_stmts = ibody.get("c", []) if ibody.get("k") == "CompoundStmt" else [ibody]
                    every_step = any(any(x is w for x in walk(st)) and st["k"] not in ("IfStmt", "SwitchStmt", "ForStmt", "WhileStmt", "DoStmt")
                                     for w in ws for st in top_stmts)
                    rep.inst(f.nloc(I), "%s: local#%s is set only in the inner loop at line %s and read after it (%s)" % (
                        f.qn, v, I.get("l"), "carried on purpose: its definitions read it" if selfref else
                        "a mode set under a condition: persists on purpose" if not every_step else "per-item value"))
                    if selfref or not every_step:
                        continue
                    cfg = f.cfg
                    # start of an iteration of L: the position of the first statement of its body
                    first = body.get("c", [body])[0] if body["k"] == "CompoundStmt" and body.get("c") else body
                    start = None
                    for x in walk(first):
                        start = cfg.position(x)
                        if start is not None:
                            break
                    dpos = [cfg.position(w) for w in ws if cfg.position(w) is not None]
                    for u in uses:
                        up = cfg.position(u)
                        if up is None or start is None:
                            continue
                        rep.ob()
                        # the use follows the inner loop in the iteration (not a use before it)
                        ipos = cfg.position(strip(I["cond"])) if I.get("cond") is not None else None
                        if ipos is None or not cfg.path_exists(ipos, [up], avoid=[start]):
                            continue
                        if cfg.path_exists(start, [up], avoid=dpos) or start == up:
                            rep.viol("%s#stale-local#%s" % (f.qn, v), f.nloc(u),
                                     "%s reads local#%s at line %s after the inner loop at line %s, which is the only place that sets it and may "
                                     "run zero times: on that path the value left by the previous iteration of the loop at line %s (or by the code "
                                     "before it) decides what is done for this item" % (f.qn, v, u.get("l"), I.get("l"), L.get("l")), f.qn)
                            break


# ---------------------------------------------------------------------------------------------------
@rule("R-CURSORFILL", 4, "a byte array that is saved up to a cursor member (save writes A[0..N)) is written wherever the cursor goes: in the "
                         "building constructor every advance of N (N++, N += k) is preceded, since the previous advance, by a store into A "
                         "(element store, memcpy/strcpy into it, or a callee handed a pointer into it) on every path")
def r_cursorfill(db, rep):
    from rules_serial import find_pairs, flat_items, is_dispatcher
    pairs = []
    for w, r in find_pairs(db):
        if not w.rec or is_dispatcher(db, r) or w.file.startswith("libcds/"):
            continue
        try:
            items = SeqBuilder(db, w, "w", nosubst=True).run()
        except Exception:
            continue
        for it in flat_items(items):
            if it.kind == "bytes" and not it.scalar and getattr(it, "ptr", None) is not None:
                ap = access_path(w, it.ptr)
                sz = symx.canon(it.size) if it.size is not None else ""
                if ap and len(ap) == 2 and ap[0] == "this" and sz.startswith("F:this.") and sz.count(".") == 1 and "(" not in sz and " " not in sz:
                    pairs.append((w.rec, ap[1], sz.split(".")[1]))
    seen = set()
    for rec, arr, cur in sorted(set(pairs)):
        for c in db.methods_of(rec):
            if not c.is_ctor or not c.body or c.cfg is None or (c.id, arr) in seen:
                continue
            seen.add((c.id, arr))
            cfg = c.cfg
            A, N = ("this", arr), ("this", cur)
            advances = []
            for lv, w in written_lvalues(c):
                if access_path(c, lv) == N and (w["k"] == "UnaryOperator" and w["op"] == "++" or w.get("op") == "+="):
                    advances.append(w)
            if not advances:
                continue
            # stores into A
            stores = []
            for lv, w in written_lvalues(c):
                s = strip(lv)
                while s["k"] in ("ArraySubscriptExpr",) or (s["k"] == "UnaryOperator" and s["op"] == "*"):
                    s = strip(s["base"] if s["k"] == "ArraySubscriptExpr" else s["sub"])
                    if s["k"] == "BinaryOperator" and s["op"] == "+":
                        s = strip(s["lhs"])
                    while s["k"] in EXPLICIT_CASTS:
                        s = strip(s["sub"])
                if access_path(c, s) == A and strip(lv)["k"] != "MemberExpr":
                    stores.append(w)
            for n in c.calls():
                for a in n.get("args", []):
                    if any(x["k"] == "MemberExpr" and access_path(c, x) == A for x in walk(a)):
                        if callee_name(n) in ("memcpy", "strcpy", "strncpy", "memset", "memmove") or n.get("pw") or n.get("f") in db.funcs:
                            stores.append(n)
            spos = [cfg.position(x) for x in stores if cfg.position(x) is not None]
            apos = {id(w): cfg.position(w) for w in advances}
            rep.visit(c)
            rep.inst(c.loc, "%s: %d advances of %s, %d stores into %s" % (c.qn, len(advances), cur, len(stores), arr))
            for w in advances:
                rep.ob()
                p = apos[id(w)]
                if p is None:
                    continue
                # a store inside the advancing statement itself (N += encode(.., A + N)) counts
                if any(any(y is x for y in walk(w)) for x in stores):
                    continue
                # an advance that itself stores (N += encode(.., &A[N])) leaves the byte at the new cursor written (the encoder's
                # current, partly filled byte): it is not a start of an unwritten stretch
                embedded = {id(w2) for w2 in advances if any(any(y is x for y in walk(w2)) for x in stores)}
                # ... and so does N++ right after a store at A[N + 1] in the same block (the byte at the new cursor was written ahead)
                for w2 in advances:
                    p2 = apos[id(w2)]
                    if p2 is None or not (w2["k"] == "UnaryOperator" and w2["op"] == "++"):
                        continue
                    for x in stores:
                        lv0 = strip(x.get("lhs")) if x.get("lhs") is not None else None
                        px = cfg.position(x)
                        if lv0 is None or lv0["k"] != "ArraySubscriptExpr" or px is None or px[0] != p2[0] or px[1] >= p2[1]:
                            continue
                        ix = strip(lv0["idx"])
                        if ix["k"] == "BinaryOperator" and ix["op"] == "+" and access_path(c, ix["lhs"]) == N and const_value(ix["rhs"]) == 1:
                            embedded.add(id(w2))
                # (the stretch from the function entry to the first advance is not judged: with no string at all the loops that
                # store do not run, and an empty dictionary is not a supported input)
                starts = [q for k2, q in apos.items() if q is not None and k2 != id(w) and k2 not in embedded]
                bad = None
                for st in starts:
                    # some path from the previous advance to this one on which nothing is stored into A (and no other advance
                    # lies in between).  (A first version of this clause was narrowed to "the previous advance dominates and no
                    # store can run in between" after HTFC/HHTFC images built from inputs that do not take the path compared
                    # equal; a defect hunt then produced the inputs that do - elements % bucketsize == 1 - and the reports were
                    # genuine.  The may-form is the rule.)
                    if cfg.path_exists(st, [p], avoid=spos + [q for q in apos.values() if q is not None and q != p and q != st]):
                        bad = st
                        break
                if bad is not None:
                    rep.viol("%s#%s-advanced-without-store" % (c.qn, cur), c.nloc(w),
                             "%s advances %s at line %s although, on some path since the previous advance, nothing was stored into %s: "
                             "%s::save writes %s[0..%s), so that byte reaches the image holding whatever the allocator returned" % (
                                 c.qn, cur, w.get("l"), arr, rec, arr, cur), c.qn)
