"""R-WINDOW, R-OUTLEN, R-DEDUP: iterator window protocol, length reporting and cursor advance, sort-before-dedup + sentinel."""
from core import *
from rulebase import rule
from rules_dispatch import kinds, method
import rules_serial
from rules_serial import SeqBuilder
import symx
from symx import canon, mk_op, C


def iterator_classes(db):
    out = []
    for base in ("IteratorDictString", "IteratorDictID"):
        for k in sorted(db.all_subclasses(base)):
            if k in db.records:
                out.append((base, k))
    return out


def subst_params(s, args):
    k = s[0]
    if k == "param":
        return args[s[1]] if s[1] < len(args) else ("unk", "arg%d" % s[1])
    if k == "op":
        return mk_op(s[1], subst_params(s[2], args), subst_params(s[3], args))
    if k in ("neg", "not"):
        return (k, subst_params(s[1], args))
    if k == "call":
        return ("call", s[1], tuple(subst_params(a, args) for a in s[2]))
    if k == "ite":
        return ("ite",) + tuple(subst_params(x, args) for x in s[1:])
    if k == "idx":
        return ("idx", subst_params(s[1], args), subst_params(s[2], args))
    return s


def protocol(db, rec):
    """Linear window protocol of an iterator class: (E_first, E_end) over constructor parameters such that the
    iterator yields E_end - E_first items, or None if the class does not follow processed/scanneable."""
    ctors = [c for c in db.methods_of(rec) if c.is_ctor and c.params]
    hn = db.methods_of(rec, "hasNext")
    if not hn:
        for b in db.all_bases(rec):
            hn = db.methods_of(b, "hasNext")
            hn = [h for h in hn if h.body]
            if hn:
                break
    if not hn or not hn[0].body or len(ctors) != 1:
        return None
    h = hn[0]
    rets = [n for n in h.nodes() if n["k"] == "ReturnStmt"]
    if len(rets) != 1 or rets[0].get("value") is None:
        return None
    c = strip(rets[0]["value"])
    if not (c["k"] == "BinaryOperator" and c["op"] == "<" and access_path(h, c["lhs"]) == ("this", "processed")
            and access_path(h, c["rhs"]) == ("this", "scanneable")):
        return None
    ct = ctors[0]
    sb = SeqBuilder(db, ct, "c", nosubst=True)
    sb.run()
    ep, es = sb.env.get(("this", "processed")), sb.env.get(("this", "scanneable"))
    if ep is None or es is None or symx.has_unknown(ep) or symx.has_unknown(es):
        return None
    return ct, ep, es


def constructions(db, g):
    """(new-expr node, construct node, class) for iterator objects created in g."""
    out = []
    for n in g.live_nodes():
        if n["k"] == "CXXNewExpr" and n.get("init") is not None:
            ce = strip(n["init"])
            if ce["k"] in ("CXXConstructExpr",) and (ce.get("rec", "").startswith("IteratorDict")):
                out.append((n, ce, ce["rec"]))
    return out


def range_vars(db, g):
    """Locals holding the left / right ID limits of a prefix range in g: assigned from getLeftLimit()/getRightLimit(),
    or passed by address to a callee parameter named left / right."""
    left = right = None
    for n in g.live_nodes():
        if n["k"] == "DeclStmt":
            for d in n["decls"]:
                ini = strip(d.get("init")) if d.get("init") is not None else None
                if ini is not None and ini["k"] == "CXXMemberCallExpr":
                    if callee_name(ini) == "getLeftLimit":
                        left = d["d"]
                    elif callee_name(ini) == "getRightLimit":
                        right = d["d"]
        if n["k"] in ("CallExpr", "CXXMemberCallExpr") and n.get("f") in db.funcs:
            callee = db.funcs[n["f"]]
            for i, a in enumerate(n.get("args", [])):
                sa = strip(a)
                if sa["k"] == "UnaryOperator" and sa["op"] == "&" and i < len(callee.params):
                    p = access_path(g, sa["sub"])
                    if p and p[0] == "local" and len(p) == 2:
                        if callee.params[i]["n"] == "left":
                            left = p[1]
                        elif callee.params[i]["n"] == "right":
                            right = p[1]
    return left, right


@rule("R-WINDOW", 12, "string iterators created by extractTable / extractPrefix are given a window that makes them yield exactly "
                      "numElements, resp. right-left+1, strings under the iterator class's own first/end protocol")
def r_window(db, rep):
    protos = {}
    for base, k in iterator_classes(db):
        protos[k] = protocol(db, k)
    for kd in kinds(db):
        for opn in ("extractTable", "extractPrefix"):
            g = method(db, kd, opn)
            cons = constructions(db, g)
            if not cons:
                continue
            left, right = range_vars(db, g) if opn == "extractPrefix" else (None, None)
            sb = SeqBuilder(db, g, "c", nosubst=True)
            # keep range variables symbolic
            sb.run()
            for newn, ce, cls in cons:
                pr = protos.get(cls)
                rep.visit(g)
                if pr is None:
                    rep.inst(g.nloc(newn), "%s creates %s (no linear first/end protocol: not decided here)" % (g.qn, cls))
                    continue
                ct, ep, es = pr
                rep.inst(g.nloc(newn), "%s creates %s: yields %s items" % (g.qn, cls, canon(mk_op("-", es, ep))))
                sb2 = SeqBuilder(db, g, "c", nosubst=True)
                if left is not None:
                    sb2.env[("local", left)] = ("local", left)
                if right is not None:
                    sb2.env[("local", right)] = ("local", right)
                # evaluate arguments with range variables pinned: walk the function but re-pin after each statement
                args = []
                for a in ce.get("args", []):
                    args.append(pinned_sym(db, g, a, left, right, at=newn))
                count = mk_op("-", subst_params(es, args), subst_params(ep, args))
                rep.ob()
                if opn == "extractTable":
                    want = None
                    for fld in ("elements", "strings_qty"):
                        if canon(count) == canon(("field", ("this", fld))):
                            want = fld
                    if want is None and not symx.has_unknown(count):
                        wit = symx.differ_witness(count, ("field", ("this", "elements")))
                        if wit is not None:
                            rep.viol("%s#table-window" % g.qn, g.nloc(newn),
                                     "%s gives %s a window of %s strings; the table scan must yield numElements (e.g. %s)" % (
                                         g.qn, cls, canon(count), wit), g.qn)
                else:
                    if left is None or right is None:
                        continue
                    want = mk_op("+", mk_op("-", ("local", right), ("local", left)), C(1))
                    if symx.has_unknown(count):
                        continue
                    # the empty answer: locatePrefix reports no match as the pair (NORESULT, NORESULT) = (0, 0); unless the
                    # construction sits under a test that excludes it, the iterator built from (0, 0) must have nothing to yield
                    rep.ob()
                    # only where [left, right] is an ID pair taken from a locatePrefix result (getLeftLimit / getRightLimit);
                    # row ranges of the FM-index and XBW have their own empty-range conventions
                    from_limits = 0
                    for dn in g.live_nodes():
                        if dn["k"] == "DeclStmt":
                            for d0 in dn["decls"]:
                                i0 = strip(d0.get("init")) if d0.get("init") is not None else None
                                if i0 is not None and i0["k"] == "CXXMemberCallExpr" and callee_name(i0) in ("getLeftLimit", "getRightLimit") and \
                                        d0.get("d") in (left, right):
                                    from_limits += 1
                    guarded = from_limits < 2
                    for cnd, pol in g.cfg.guards(newn) if g.cfg is not None else []:
                        if cnd is None:
                            continue
                        for x in walk(cnd):
                            if x["k"] == "DeclRefExpr" and x.get("dk") == "local" and x.get("d") in (left, right):
                                guarded = True
                            if x["k"] == "CXXMemberCallExpr" and callee_name(x) in ("getLeftLimit", "getRightLimit"):
                                guarded = True
                    if not guarded:
                        M = 1 << 64
                        zero = {("local", left): 0, ("local", right): 0}
                        f0 = symx.evaluate(subst_params(ep, args), zero)
                        e0 = symx.evaluate(subst_params(es, args), zero)
                        if f0 is not None and e0 is not None and (f0 % M) < (e0 % M):
                            rep.viol("%s#empty-window" % g.qn, g.nloc(newn),
                                     "%s builds %s unconditionally; for the no-match pair (left, right) = (0, 0) the iterator starts at %d with "
                                     "end %d under its own protocol and yields %d phantom string(s)" % (g.qn, cls, f0 % M, e0 % M, (e0 - f0) % M), g.qn)
                    # over genuine ID ranges 1 <= left <= right (the no-match pair (0, 0) is the obligation above)
                    Lk, Rk = ("local", left), ("local", right)
                    wit = symx.differ_witness(count, want, where=lambda v: (Lk not in v or v[Lk] >= 1) and (Lk not in v or Rk not in v or v[Lk] <= v[Rk]))
                    if wit is not None:
                        rep.viol("%s#prefix-window" % g.qn, g.nloc(newn),
                                 "%s locates the ID range [left,right] but gives %s (first=%s, end=%s under that class's protocol) a window of "
                                 "%s strings instead of right-left+1 (e.g. %s)" % (
                                     g.qn, cls, canon(subst_params(ep, args)), canon(subst_params(es, args)), canon(count), wit), g.qn)


def pinned_sym(db, g, expr, left, right, at=None):
    """Symbolic value of expr in g with the range variables kept as symbols and other locals resolved through
    their (single, straight-line) definitions.  With `at` (a node): when that leaves a local unresolved (several
    definitions, e.g. `n = 0; if (c) n = e;`), the value is taken from a flow-sensitive walk of g up to the statement
    containing `at` (if-merges become ite)."""
    if at is not None:
        v = pinned_sym(db, g, expr, left, right)
        loose = [a for a in symx.atoms(v) if isinstance(a, tuple) and a and a[0] == "local" and a[1] not in (left, right)]
        if not loose:
            return v
        sbf = SeqBuilder(db, g, "c", nosubst=True)
        sbf.pinned = {("local", d) for d in (left, right) if d is not None}
        sbf.probe_id = at.get("id")
        try:
            sbf.run()
        except Exception:
            return v
        if sbf.probe_env is None:
            return v
        sbf.env = sbf.probe_env
        sbf.probe_id = None
        return sbf.sym(expr)
    sb = SeqBuilder(db, g, "c", nosubst=True)
    # resolve locals defined by a single declaration with initialiser (other than the pinned ones)
    defs = {}
    for n in g.live_nodes():
        if n["k"] == "DeclStmt":
            for d in n["decls"]:
                if "d" in d and d.get("init") is not None:
                    defs.setdefault(d["d"], []).append(d["init"])
    for lv, w in written_lvalues(g):
        p = access_path(g, lv)
        if p and p[0] == "local" and len(p) == 2:
            defs.setdefault(p[1], []).append(None)
    order = []
    for d, lst in defs.items():
        if d in (left, right):
            sb.env[("local", d)] = ("local", d)
        elif len(lst) == 1 and lst[0] is not None:
            order.append((d, lst[0]))
    for _ in range(3):
        for d, ini in order:
            sb.env[("local", d)] = sb.sym(ini)
    return sb.sym(expr)


# ---------------------------------------------------------------------------------------------------
@rule("R-OUTLEN", 13, "every string iterator's next() reports the length on every path and advances its cursor on every path")
def r_outlen(db, rep):
    for base, k in iterator_classes(db):
        if base != "IteratorDictString":
            continue
        for f in db.methods_of(k, "next"):
            if not f.body or not f.params:
                continue
            rep.visit(f)
            rep.inst(f.loc, "%s" % f.qn)
            cfg = f.cfg
            # positions that define *strLen: direct store through param 0, or a call that is handed the parameter itself
            defs = []
            for lv, w in written_lvalues(f):
                s = strip(lv)
                if s["k"] == "UnaryOperator" and s["op"] == "*" and access_path(f, s["sub"]) == ("param", 0):
                    defs.append(cfg.position(w))
            for n in f.calls():
                for a in n.get("args", []):
                    if access_path(f, a) == ("param", 0):
                        defs.append(cfg.position(n))
            defs = [d for d in defs if d is not None]
            rets = [n for n in f.live_nodes() if n["k"] == "ReturnStmt"]
            for r in rets:
                if r.get("value") is not None and const_value(r["value"]) == 0:
                    continue
                rep.ob()
                rp = cfg.position(r)
                if cfg.path_exists(cfg.entry, [rp], avoid=defs):
                    rep.viol("%s#length-not-reported" % f.qn, f.nloc(r),
                             "%s can return a string on a path that never stores its length through the out-parameter" % f.qn, f.qn)
            # cursor advance: every path to a return passes a write of a field that hasNext() reads
            cursor = set()
            hn = db.methods_of(k, "hasNext") or [h for b in db.all_bases(k) for h in db.methods_of(b, "hasNext") if h.body]
            seenf = set()
            work = list(hn)
            while work:
                h = work.pop()
                if h.id in seenf or not h.body:
                    continue
                seenf.add(h.id)
                for n in h.nodes():
                    if n["k"] == "MemberExpr" and n.get("mk") == "field":
                        p = access_path(h, n)
                        if p and p[0] == "this" and len(p) >= 2:
                            cursor.add(p[1])
                    if n["k"] == "CXXMemberCallExpr" and n.get("f") in db.funcs and (n.get("obj") is None or strip(n["obj"])["k"] == "CXXThisExpr"):
                        work.append(db.funcs[n["f"]])
            adv = []
            for lv, w in written_lvalues(f):
                p = access_path(f, lv)
                if p and p[0] == "this" and len(p) == 2 and p[1] in cursor:
                    adv.append(cfg.position(w))
            # advancing through a helper method of the same class
            for n in f.calls():
                t = db.funcs.get(n.get("f"))
                if t is not None and t.rec and (t.rec == k or t.rec in db.all_bases(k)) and n["k"] == "CXXMemberCallExpr":
                    for lv, w in written_lvalues(t):
                        p = access_path(t, lv)
                        if p and p[0] == "this" and len(p) == 2 and p[1] in cursor:
                            adv.append(cfg.position(n))
                # work-list iterators (XBW): consuming an entry of a member container is the advance
                if n.get("ext") and n["k"] == "CXXMemberCallExpr" and callee_name(n) in ("erase", "pop_front", "pop_back") and n.get("obj") is not None:
                    p = access_path(f, n["obj"])
                    if p and p[0] == "this" and len(p) == 2:
                        adv.append(cfg.position(n))
            adv = [a for a in adv if a is not None]
            rep.ob()
            for r in rets:
                if r.get("value") is not None and const_value(r["value"]) == 0:
                    continue
                rp = cfg.position(r)
                if cfg.path_exists(cfg.entry, [rp], avoid=adv):
                    rep.viol("%s#cursor-not-advanced" % f.qn, f.nloc(r),
                             "%s can return without advancing its cursor: the scan would repeat an element or never end" % f.qn, f.qn)
                    break


# ---------------------------------------------------------------------------------------------------
DUP_CLASSES = ("IteratorDictIDDuplicates", "IteratorDictStringFMINDEXDuplicates")


@rule("R-DEDUP", 2, "duplicate-skipping iterators receive an array that was sorted over exactly [a, a+n), carries the 0 sentinel at "
                    "a[n], and was allocated with at least n+1 entries")
def r_dedup(db, rep):
    sites = []
    for g in db.funcs.values():
        if g.file.startswith("libcds/"):
            continue
        for newn, ce, cls in constructions(db, g):
            if cls in DUP_CLASSES:
                sites.append((g, newn, ce, cls))
    for g, newn, ce, cls in sites:
        rep.visit(g)
        rep.inst(g.nloc(newn), "%s creates %s" % (g.qn, cls))
        cfg = g.cfg
        ct = [c for c in db.methods_of(cls) if c.is_ctor][0]
        ai = next(i for i, p in enumerate(ct.params) if p["n"] == "ids")
        ni = next(i for i, p in enumerate(ct.params) if p["n"] == "scanneable")
        arr = access_path(g, ce["args"][ai])
        sb = SeqBuilder(db, g, "c", nosubst=True)
        nsym = canon(sb.sym(ce["args"][ni]))
        pos = cfg.position(newn)
        # where the array comes from: straight from SSA::locate (unsorted, count+1 entries), or from some other helper of the
        # code base, whose own preparation of the array is not followed here
        foreign = None
        for n in g.calls():
            for a in n.get("args", []):
                sa = strip(a)
                if sa["k"] == "UnaryOperator" and sa["op"] == "&" and access_path(g, sa["sub"]) == arr and callee_name(n) != "locate":
                    foreign = n
        # sort over [a, a+n)
        rep.ob()
        ok_sort = False
        for n in g.calls():
            if callee_name(n) == "sort" and len(n.get("args", [])) >= 2:
                b, e = strip(n["args"][0]), strip(n["args"][1])

                def elem(x):
                    # &(a[i]) or a + i  -> (path, index sym)
                    if x["k"] == "UnaryOperator" and x["op"] == "&":
                        s = strip(x["sub"])
                        if s["k"] == "ArraySubscriptExpr":
                            return access_path(g, s["base"]), canon(sb.sym(s["idx"]))
                    if x["k"] == "BinaryOperator" and x["op"] == "+":
                        return access_path(g, x["lhs"]), canon(sb.sym(x["rhs"]))
                    p = access_path(g, x)
                    return (p, "0") if p else (None, None)
                bp, bi = elem(b)
                epth, ei = elem(e)
                if bp == arr and epth == arr and bi == "0" and ei == nsym and cfg.dominates(cfg.position(n), pos):
                    ok_sort = True
        if not ok_sort and foreign is not None:
            rep.notes.append("%s: the array handed to %s is produced by %s, not by SSA::locate: its ordering and sentinel are prepared "
                             "there (undecided)" % (g.qn, cls, foreign.get("fn") or callee_name(foreign)))
            continue
        if not ok_sort:
            rep.viol("%s#unsorted" % g.qn, g.nloc(newn),
                     "%s hands %s an array that is not sorted over exactly [ids, ids+n) on every path: adjacent-duplicate skipping "
                     "then reports an ID twice" % (g.qn, cls), g.qn)
        # sentinel a[n] = 0
        rep.ob()
        ok_sent = False
        for lv, w in written_lvalues(g):
            s = strip(lv)
            if s["k"] == "ArraySubscriptExpr" and access_path(g, s["base"]) == arr and canon(sb.sym(s["idx"])) == nsym and \
                    w.get("rhs") is not None and const_value(w["rhs"]) == 0 and cfg.dominates(cfg.position(w), pos):
                ok_sent = True
        if not ok_sent:
            rep.viol("%s#no-sentinel" % g.qn, g.nloc(newn),
                     "%s does not store the 0 sentinel at ids[n] before creating %s: next() compares ids[n-1] with ids[n]" % (g.qn, cls), g.qn)
    # the array comes from SSA::locate, which must allocate matches+1 entries and return matches
    f = db.fn("SSA::locate")
    rep.visit(f)
    rep.inst(f.loc, "SSA::locate: extent of the occurrence array")
    sb = SeqBuilder(db, f, "c", nosubst=True)
    sb.run()
    rep.ob()
    allocs = [(p, n, e) for p, n, e in sb.allocs if p == ("param", 2, "[]")]
    rets = [n for n in f.live_nodes() if n["k"] == "ReturnStmt" and n.get("value") is not None and const_value(n["value"]) is None]
    if not allocs or not rets:
        rep.notes.append("SSA::locate does not allocate the occurrence array through its out-parameter with new[] (another ownership "
                         "scheme): the count+1 extent is not decided here")
    else:
        ext = allocs[0][2]
        sb2 = SeqBuilder(db, f, "c", nosubst=True)
        for r in rets:
            cnt = pinned_sym(db, f, r["value"], None, None)
            e2 = pinned_sym(db, f, allocs[0][1]["size"], None, None)
            wit = symx.differ_witness(e2, mk_op("+", cnt, C(1)))
            if wit is not None and not symx.has_unknown(e2) and not symx.has_unknown(cnt):
                rep.viol("SSA::locate#occs-extent", f.nloc(allocs[0][1]),
                         "SSA::locate allocates %s entries for *occs but returns %s occurrences: callers store the sentinel at occs[count]" % (
                             canon(e2), canon(cnt)), f.qn)


@rule("R-DUPSKIP", 4, "sibling agreement of the duplicate-skipping iterators: next() skips equal neighbours with a *loop* whose only "
                      "condition is a[processed-1] == a[processed] (the 0 sentinel ends it)")
def r_dupskip(db, rep):
    classes = [k for base, k in iterator_classes(db) if k.endswith("Duplicates")]
    for k in classes:
        for f in db.methods_of(k, "next"):
            rep.visit(f)
            rep.inst(f.loc, "%s: duplicate-skipping step" % f.qn)
            loops = [n for n in f.live_nodes() if n["k"] in ("DoStmt", "WhileStmt") and n.get("cond") is not None and
                     any(x["k"] in ("ArraySubscriptExpr", "CXXOperatorCallExpr") for x in walk(n["cond"]))]
            rep.ob()
            if not loops:
                # the other design: the class removes the duplicates once, when it collects the results -
                # container.erase(std::unique(container.begin(), container.end()), container.end()) in a constructor, over the
                # container next() reads
                read = {access_path(f, x["args"][0]) for x in f.live_nodes() if x["k"] == "CXXOperatorCallExpr" and x.get("opcall") == "[]" and x.get("args")} | \
                       {access_path(f, x["base"]) for x in f.live_nodes() if x["k"] == "ArraySubscriptExpr"}
                dedup = False
                for c0 in db.methods_of(k):
                    if not c0.is_ctor or not c0.body:
                        continue
                    for cl in c0.calls():
                        if callee_name(cl) == "erase" and cl.get("obj") is not None and access_path(c0, cl["obj"]) in read:
                            if any(y["k"] == "CallExpr" and callee_name(y) == "unique" for a in cl.get("args", []) for y in walk(a)):
                                dedup = True
                if dedup:
                    rep.notes.append("%s: duplicates are removed once at construction (erase(unique(..))): no skipping step needed" % f.qn)
                    continue
                rep.viol("%s#no-skip-loop" % f.qn, f.loc,
                         "%s has no loop that skips equal neighbours: a member with three or more occurrences is reported more than once" % f.qn, f.qn)
                continue
            c = strip(loops[0]["cond"])
            rep.ob()
            ok = False
            if c["k"] == "BinaryOperator" and c["op"] == "==":
                def elem(x):
                    x = strip(x)
                    if x["k"] == "ArraySubscriptExpr":
                        return access_path(f, x["base"]), canon(SeqBuilder(db, f, "c", nosubst=True).sym(x["idx"]))
                    if x["k"] == "CXXOperatorCallExpr" and x.get("opcall") == "[]":
                        return access_path(f, x["args"][0]), canon(SeqBuilder(db, f, "c", nosubst=True).sym(x["args"][1]))
                    return None, None
                (ba, ia), (bb, ib) = elem(c["lhs"]), elem(c["rhs"])
                if ba is not None and ba == bb and {ia, ib} == {"F:this.processed", "(-1 + F:this.processed)"}:
                    ok = True
            if not ok:
                rep.viol("%s#skip-condition" % f.qn, f.nloc(loops[0]),
                         "%s: the duplicate-skipping loop does not run exactly while a[processed-1] == a[processed] (its siblings do; "
                         "an extra bound or a different comparison lets a duplicate through or reads a different cell)" % f.qn, f.qn)


@rule("R-IDRANGE", 1, "the contiguous ID iterator enumerates exactly [left, right]: for the `no result` pair (0, 0) hasNext() is false at once, "
                      "and for 1 <= left <= right it yields right-left+1 IDs starting at left (constructor, hasNext and next evaluated in "
                      "size_t arithmetic over a grid of limits)")
def r_idrange(db, rep):
    rec = "IteratorDictIDContiguous"
    ctors = [c for c in db.methods_of(rec) if c.is_ctor and len(c.params) == 2]
    nxt = db.methods_of(rec, "next")
    has = db.methods_of("IteratorDictID", "hasNext") or db.methods_of(rec, "hasNext")
    if not ctors or not nxt or not has:
        raise AnalysisBroken("IteratorDictIDContiguous: constructor / next / hasNext not found")
    c, nxt, has = ctors[0], nxt[0], has[0]
    for f in (c, nxt, has):
        rep.visit(f)
    sb = SeqBuilder(db, c, "c", nosubst=True)
    sb.run()
    # hasNext: return A < B over fields
    hret = [n for n in has.live_nodes() if n["k"] == "ReturnStmt" and n.get("value") is not None]
    if len(hret) != 1:
        raise AnalysisBroken("IteratorDictID::hasNext: expected a single return")
    hc = strip(hret[0]["value"])
    if hc["k"] != "BinaryOperator" or hc["op"] not in ("<", "<=", "!="):
        raise AnalysisBroken("IteratorDictID::hasNext: not a comparison")
    hp = [access_path(has, hc["lhs"]), access_path(has, hc["rhs"])]
    # next: returns ++cur / cur++ (value before or after the step)
    nret = [n for n in nxt.live_nodes() if n["k"] == "ReturnStmt" and n.get("value") is not None]
    step = None
    if len(nret) == 1:
        r = strip(nret[0]["value"])
        if r["k"] == "UnaryOperator" and r["op"] == "++":
            step = (access_path(nxt, r["sub"]), 0 if r.get("postfix") else 1)
    if step is None:
        rep.notes.append("IteratorDictIDContiguous::next is not a single `return ++x / x++`: undecided")
        rep.inst(c.loc, "IteratorDictIDContiguous: protocol not in the recognised form")
        return
    cur, delta = step
    M = 1 << 64

    def fld(p, l, r):
        v = sb.env.get(p)
        if v is None:
            return None
        x = symx.evaluate(v, {("param", 0): l, ("param", 1): r})
        return None if x is None else x % M

    rep.inst(c.loc, "IteratorDictIDContiguous(left, right): %s = %s, %s = %s; hasNext: %s %s %s; next returns the value %s the step" % (
        fmt_path(c, hp[0]), canon(sb.env.get(hp[0], ("unk", "?"))), fmt_path(c, hp[1]), canon(sb.env.get(hp[1], ("unk", "?"))),
        fmt_path(has, hp[0]), hc["op"], fmt_path(has, hp[1]), "after" if delta else "before"))
    cases = [(0, 0)] + [(l, r) for l in (1, 2, 5, 1000) for r in (l, l + 1, l + 7, l + 100000)]
    for l, r in cases:
        a, b = fld(hp[0], l, r), fld(hp[1], l, r)
        c0 = fld(cur, l, r)
        rep.ob()
        if a is None or b is None or c0 is None:
            rep.notes.append("IteratorDictIDContiguous: fields not expressible over (left, right): undecided")
            return
        if hc["op"] == "!=" :
            count = (b - a) % M if cur == hp[0] else None
        else:
            lim = b + (1 if hc["op"] == "<=" else 0)
            count = max(0, lim - a) if cur == hp[0] else None
        first = (c0 + delta) % M
        want = 0 if (l, r) == (0, 0) else r - l + 1
        if count is None:
            rep.notes.append("IteratorDictIDContiguous: hasNext does not test the cursor that next advances: undecided")
            return
        if count != want or (want and first != l):
            rep.viol("IteratorDictIDContiguous#range", c.loc,
                     "IteratorDictIDContiguous(%d, %d) yields %d ID(s)%s, expected %s: %s" % (
                         l, r, count, (" starting at %d" % first) if count else "", "none" if not want else "%d starting at %d" % (want, l),
                         "an empty prefix / no-match result produces a phantom ID" if not want else "the ID range is shifted or truncated"), c.qn)
            return


SHRINKERS = ("erase", "pop_back", "pop_front", "clear", "resize", "shrink_to_fit")


@rule("R-STALESIZE", 2, "a bound that an object keeps (a field assigned from container.size()) is not made stale: no path from the "
                        "assignment shrinks the container (erase / pop_back / clear / resize) without the bound being taken again")
def r_stalesize(db, rep):
    for f in sorted(db.funcs.values(), key=lambda x: (x.file, x.line)):
        if not f.body or f.file.startswith("libcds/") or f.cfg is None:
            continue
        for lv, w in written_lvalues(f):
            tgt = access_path(f, lv)
            if tgt is None or tgt[0] != "this" or w.get("op") != "=" or w.get("rhs") is None:
                continue
            r = strip(w["rhs"])
            if r["k"] != "CXXMemberCallExpr" or callee_name(r) != "size" or r.get("obj") is None or not r.get("ext"):
                continue
            cont = access_path(f, r["obj"])
            if cont is None:
                continue
            rep.visit(f)
            rep.inst(f.nloc(w), "%s: %s = %s.size()" % (f.qn, fmt_path(f, tgt), fmt_path(f, cont)))
            rep.ob()
            pos = f.cfg.position(w)
            retake = [f.cfg.position(w2) for lv2, w2 in written_lvalues(f) if access_path(f, lv2) == tgt and w2 is not w]
            retake = [p for p in retake if p is not None]
            for c in f.calls():
                if c["k"] == "CXXMemberCallExpr" and c.get("ext") and callee_name(c) in SHRINKERS and c.get("obj") is not None and \
                        access_path(f, c["obj"]) == cont:
                    cp = f.cfg.position(c)
                    if pos is not None and cp is not None and f.cfg.path_exists(pos, [cp], avoid=retake):
                        rep.viol("%s#stale-%s" % (f.qn, tgt[-1]), f.nloc(c),
                                 "%s stores %s.size() in %s and then shrinks the container with %s(): the stored bound exceeds the number of "
                                 "valid elements, so the iterator walks past them (sentinel, stale values)" % (
                                     f.qn, fmt_path(f, cont), fmt_path(f, tgt), callee_name(c)), f.qn)
                        break


CHUNK_START = {"c_chunk": 0, "c_valid": 0, "strLen": 0, "advanced": 0, "extracted": 1}


@rule("R-CHUNKINIT", 4, "sibling agreement of the Hu-Tucker / Huffman chunk scans: every ChunkScan that a function creates and hands to the "
                        "chunk decoder starts as (c_chunk, c_valid, strLen, advanced, extracted) = (0, 0, 0, 0, 1), however it is spelled "
                        "(aggregate initialiser, `{}` plus assignments)")
def r_chunkinit(db, rep):
    for f in sorted(db.funcs.values(), key=lambda x: (x.file, x.line)):
        if not f.body or f.file.startswith("libcds/"):
            continue
        for n in f.live_nodes():
            if n["k"] != "DeclStmt":
                continue
            for d in n["decls"]:
                t = f.types[d["t"]] if "t" in d else None
                if not t or t.get("rec") != "ChunkScan" or "d" not in d:
                    continue
                si = strip(d["init"]) if d.get("init") is not None else None
                if si is None:
                    start = {}
                elif si["k"] == "InitListExpr":
                    fields = si.get("fields") or []
                    inits = si.get("inits") or []
                    start = {fn: (const_value(inits[i]) if i < len(inits) and inits[i] is not None else 0) for i, fn in enumerate(fields)}
                    for fn in fields[len(inits):]:
                        start[fn] = 0
                else:
                    continue            # produced by a call (decodeHeader): initialised there
                # constant member assignments to this object in the same function (before it is used) complete the picture
                for lv, w in written_lvalues(f):
                    s = strip(lv)
                    if s["k"] == "MemberExpr" and s.get("rec") == "ChunkScan" and access_path(f, s["base"]) == ("local", d["d"]) and \
                            w.get("op") == "=" and const_value(w.get("rhs")) is not None and s["n"] not in start:
                        start[s["n"]] = const_value(w["rhs"])
                    elif s["k"] == "MemberExpr" and s.get("rec") == "ChunkScan" and access_path(f, s["base"]) == ("local", d["d"]) and \
                            w.get("op") == "=" and const_value(w.get("rhs")) is not None and si is not None and si["k"] == "InitListExpr" and \
                            not (si.get("inits")) :
                        start[s["n"]] = const_value(w["rhs"])
                rep.visit(f)
                rep.inst(f.nloc(n), "%s creates a ChunkScan starting at %s" % (f.qn, {k: start.get(k) for k in CHUNK_START}))
                for k, want in CHUNK_START.items():
                    rep.ob()
                    got = start.get(k)
                    if got is None and si is None:
                        got = "indeterminate"
                    if got != want:
                        rep.viol("%s#chunk-%s" % (f.qn, k), f.nloc(n),
                                 "%s starts its ChunkScan with %s = %s where every sibling starts with %d: the chunk decoder's end-of-string / "
                                 "carry-over logic is out of step from the first chunk on" % (f.qn, k, got, want), f.qn)
    # header scans of the Hu-Tucker kinds and their iterators are bounded by the longest *compressed* header (maxcomplength),
    # not by the longest plain string: a header made of rare bytes is longer compressed than any plain string
    for f in sorted(db.funcs.values(), key=lambda x: (x.file, x.line)):
        if not f.body or not f.rec or db.field(f.rec, "maxcomplength") is None or f.name != "decodeHeader":
            continue
        stores = []
        for lv, w in written_lvalues(f):
            sx = strip(lv)
            if sx["k"] == "MemberExpr" and sx.get("rec") == "ChunkScan" and sx.get("n") == "b_remain" and w.get("op") == "=" and w.get("rhs") is not None:
                stores.append((w["rhs"], w))
        for n in f.live_nodes():
            if n["k"] == "InitListExpr" and "b_remain" in (n.get("fields") or []):
                i = n["fields"].index("b_remain")
                if i < len(n.get("inits") or []) and n["inits"][i] is not None:
                    stores.append((n["inits"][i], n))
        for rhs, w in stores:
            if strip(rhs)["k"] not in ("MemberExpr", "DeclRefExpr"):
                continue            # computed from the bucket pointers: a different (exact) bound
            p = resolved_path(f, rhs)
            if p is None or p[0] != "this" or len(p) != 2:
                continue
            rep.visit(f)
            rep.inst(f.nloc(w), "%s bounds a header scan by %s" % (f.qn, p[1]))
            rep.ob()
            if p[1] != "maxcomplength":
                rep.viol("%s#header-bound-%s" % (f.qn, p[1]), f.nloc(w),
                         "%s bounds the scan of a compressed bucket header by %s; its siblings use maxcomplength (the longest compressed "
                         "header): a header longer than that bound is cut and the rest is decoded from zero bits" % (f.qn, p[1]), f.qn)

    # the input budget of a scan (b_remain: bytes of *compressed* text the decoder may consume) is never taken from the longest
    # *decoded* string: in a class that records maxcomplength, an initial b_remain computed from maxlength is the wrong quantity
    # (a string over rare bytes is longer compressed than plain) - its siblings use maxcomplength or the bucket's byte range
    for f in sorted(db.funcs.values(), key=lambda x: (x.file, x.line)):
        if not f.body or not f.rec or db.field(f.rec, "maxcomplength") is None:
            continue
        budgets = []
        for n in f.live_nodes():
            if n["k"] == "InitListExpr" and "b_remain" in (n.get("fields") or []):
                i = n["fields"].index("b_remain")
                if i < len(n.get("inits") or []) and n["inits"][i] is not None:
                    budgets.append((n["inits"][i], n))
        for lv, w in written_lvalues(f):
            sx = strip(lv)
            if sx["k"] == "MemberExpr" and sx.get("rec") == "ChunkScan" and sx.get("n") == "b_remain" and w.get("op") == "=" and w.get("rhs") is not None:
                budgets.append((w["rhs"], w))
        for rhs, w in budgets:
            sb = SeqBuilder(db, f, "c", nosubst=True)
            v = sb.sym(rhs)
            ats = symx.atoms(v)
            rep.visit(f)
            rep.inst(f.nloc(w), "%s gives a chunk scan the input budget %s" % (f.qn, canon(v)))
            rep.ob()
            if ("field", ("this", "maxlength")) in ats and ("field", ("this", "maxcomplength")) not in ats:
                rep.viol("%s#input-budget-maxlength" % f.qn, f.nloc(w),
                         "%s lets the chunk decoder consume %s bytes of compressed text: a budget taken from the longest decoded string, "
                         "where the other scans of the class use maxcomplength; a string whose code is longer than that is cut short and the "
                         "decoder runs on from whatever follows" % (f.qn, canon(v)), f.qn)


# ---------------------------------------------------------------------------------------------------
@rule("R-ITERSTATE", 15, "iterator state parity: every field that an iterator's public protocol (hasNext, next, size - own or "
                         "inherited) reads is assigned by each constructor of the concrete iterator class (directly, through a base "
                         "constructor or a helper it calls), unless the protocol methods assign it themselves")
def r_iterstate(db, rep):
    import rules_state
    for base, k in iterator_classes(db):
        ctors = [c for c in db.methods_of(k) if c.is_ctor and c.body is not None and c.access == "public"]
        # instantiated somewhere in the code base? (abstract bases are not)
        made = any(n["k"] == "CXXConstructExpr" and n.get("rec") == k for f in db.funcs.values() if f.body for n in f.nodes())
        if not ctors or not made:
            continue
        chain = [k] + list(db.all_bases(k))
        protocol = []
        for name in ("hasNext", "next", "size"):
            for r in chain:
                ms = [m for m in db.methods_of(r, name) if m.body is not None]
                if ms:
                    protocol += ms
                    break
        reads, self_assigned = {}, set()
        for m in protocol:
            for fid in db.closure([m]):
                g = db.funcs[fid]
                if g.rec not in chain:
                    continue
                for key, v in rules_state.read_fields(db, g).items():
                    if key[0] in chain:
                        reads.setdefault(key, (g, v[0]))
                self_assigned |= {key for key in rules_state.assigned_fields(db, g) if key[0] in chain}
        for c in ctors:
            rep.visit(c)
            assigned = set()
            for fid in db.closure([c]):
                g = db.funcs[fid]
                assigned |= set(rules_state.assigned_fields(db, g))
            rep.inst(c.loc, "%s: %d fields read by hasNext/next/size" % (c.qn, len(reads)))
            for key, (g, line) in sorted(reads.items()):
                rep.ob()
                if key in assigned or key in self_assigned:
                    continue
                rep.viol("%s/%d#%s-unset" % (k, len(c.params), key[1]), "%s:%s" % (g.file, line),
                         "%s reads %s::%s, which the constructor %s (%s) never assigns: an iterator of this class answers from an "
                         "indeterminate value" % (g.qn, key[0], key[1], c.qn, c.loc), g.qn)
