"""Property -> rules table, with the clause accounting that goes into the evidence files."""
import rules_dispatch  # noqa: F401  (registers rules)
import rules_serial  # noqa: F401
import rules_effects  # noqa: F401

COMMON_ASSUME = [
    "clang 14 front end parses /repo as g++ 12 compiles it (same flags, -std=gnu++17, -UNDEBUG)",
    "Build.cpp / Test.cpp (CLI drivers, not in CMakeLists.txt) and test/ are outside the analysed program",
    "a pass decides the named structural clauses only; the value-level behaviour listed under not_decided is not decided",
]

PROPS = {
    "C06": {
        "rules": ["R-MIRROR", "R-EXTENT", "R-TAGS", "R-DISPATCH", "R-PADDING"],
        "explanation": "Writer/reader agreement decided statically for every save/load pair in the cone of classes the 13 kinds persist "
                       "(rapid type analysis from their constructors) plus libcds classes named in C19: both halves are abstracted to "
                       "ordered trees of stream elements whose sizes are symbolic expressions over earlier image values, and compared "
                       "element by element (canonical polynomial form, else exhaustive evaluation of the two source expressions on a grid). "
                       "Allocation extents are compared with saved counts, tag dispatchers with the tags the savers write.",
        "decided": ["reader consumes exactly what the writer emits: width, count, nested class, guards, loops, field identity (R-MIRROR)",
                    "saved byte count equals allocated byte count in every building constructor (R-EXTENT)",
                    "kind tags: distinct, checked before anything else, generic loader arm per kind (R-TAGS)",
                    "libcds/Hash family dispatchers: arm per persisted class, tag equals the tag its save writes, peek restores position, no other seeking (R-DISPATCH)",
                    "no padded type is moved as raw bytes (R-PADDING)"],
        "not_decided": ["state recomputed at load (RRR sampling, HashBdh/HashBBdh compaction, DecodingTree::buildTree) equals the built state (value-level)",
                        "counts that depend on container sizes not present in the image are compared structurally only (listed as undecided in the evidence)",
                        "the generic loader's absolute seekg(0) assumes the image starts the stream (outside the self-delimiting clause, which is stated for a kind's own loader)"],
        "assumptions": COMMON_ASSUME,
    },
    "C08": {
        "rules": ["R-SAVEPURE", "R-KILLUSE", "R-DANGLING", "R-TAGSELF", "R-RESAVE", "R-EXTENT", "R-PADDING"],
        "explanation": "Interprocedural effect analysis (MOD/FREE summaries over access-path regions with pointer roots, fixpoint over "
                       "the call graph, virtual calls by class hierarchy) shows that the call closure of every save in the persisted cone "
                       "writes only the stream and frees nothing; tag identity, element-to-field restoration and extent/padding rules show "
                       "the image bytes are a function of the object and that a loaded object can reproduce them.",
        "decided": ["save closure: no write to the object, to anything reachable from it, to a global or through another parameter (R-SAVEPURE)",
                    "no query/save frees dictionary memory; no loader leaves a used field dangling: histories save;save, load;save (R-KILLUSE)",
                    "the tag a save writes is the kind's own on every creation path (R-TAGSELF)",
                    "every image element is restored into the field save writes it from (R-RESAVE)",
                    "no over-read at save (R-EXTENT), no padding bytes in the image (R-PADDING)"],
        "not_decided": ["that every element of every saved array was initialised by the builder (value/coverage reasoning per loop)",
                        "byte equality of two builds from the same input (needs R-NONDET over the builders; value-level beyond that)"],
        "assumptions": COMMON_ASSUME + ["pointer roots are tracked flow-insensitively per function; a store through a pointer loaded from a dictionary field is attributed to that field"],
    },
    "C14": {
        "rules": ["R-QUERYPURE", "R-PATTERN", "R-KILLUSE"],
        "explanation": "The same effect analysis applied to the 9 query operations, getSize, numElements, maxLength of all 13 kinds and to "
                       "hasNext/next of every iterator class: no store or free reaches dictionary state, a global (other than the standard "
                       "output streams) or memory an iterator merely borrows; every store through a query's pattern pointer is undone on "
                       "every path (CFG must-pass-through).",
        "decided": ["queries write no dictionary field, sub-object, or global (R-QUERYPURE)",
                    "iterator steps write only their own fields and owned buffers, never borrowed dictionary storage (R-QUERYPURE)",
                    "stores through the pattern pointer are restored on all exits (R-PATTERN)",
                    "queries free nothing reachable from the dictionary (R-KILLUSE)"],
        "not_decided": ["equality of answers across histories is inferred from absence of writable shared state, not observed"],
        "assumptions": COMMON_ASSUME + ["mod/ref by pointer root without full alias analysis (conservative attribution to the field a pointer was loaded from)"],
    },
    "C16": {
        "rules": ["R-STUB", "R-TAGS"],
        "explanation": "Static AST/CFG rules over every translation unit of /repo: the 45 unsupported-operation bodies are "
                       "effect-free constant-null returns (for this property the code shape is the behaviour); every kind's loader "
                       "rejects a foreign tag before allocating or reading further; the generic loader has exactly one arm per "
                       "kind tag and returns NULL otherwise.",
        "decided": ["stub bodies: no state access, no effect, only stream output, null return (R-STUB)",
                    "FMINDEX substring operations: BWTsampling==0 test first, stub region returns (R-STUB)",
                    "loader tag check dominates every allocation and stream read (R-TAGS)",
                    "generic dispatcher: arm per tag, right callee, NULL fall-through, no constructing default (R-TAGS)"],
        "not_decided": ["stream insertion into cout/cerr does not throw (assumed)"],
        "assumptions": COMMON_ASSUME,
    },
}


NOT_YET = "check under construction in this commit; see DESIGN.md section 4 for the planned rules"
NOT_APPLICABLE = {
    "C18": "prefix-freeness, completeness, alphabetic order and decode(encode)=id are statements about numbers computed from "
           "arbitrary frequency vectors and a 16-bit chunk table filled at run time; no clause is visible in code shape "
           "(the nearby structural facts are claimed under C06/C07)",
}
for _p in ["C%02d" % i for i in range(1, 21)]:
    if _p not in PROPS and _p not in NOT_APPLICABLE:
        NOT_APPLICABLE[_p] = NOT_YET


def run_controls(rules, tier):
    return []
