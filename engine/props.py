"""Property -> rules table, with the clause accounting that goes into the evidence files."""
import rules_dispatch  # noqa: F401  (registers rules)
import rules_serial  # noqa: F401
import rules_effects  # noqa: F401
import rules_conc  # noqa: F401
import rules_guard  # noqa: F401
import rules_iter  # noqa: F401
import rules_state  # noqa: F401
import rules_arith  # noqa: F401
import rules_repair  # noqa: F401
import rules_order  # noqa: F401
import rules_width  # noqa: F401

COMMON_ASSUME = [
    "clang 14 front end parses /repo as g++ 12 compiles it (same flags, -std=gnu++17, -UNDEBUG)",
    "Build.cpp / Test.cpp (CLI drivers, not in CMakeLists.txt) and test/ are outside the analysed program",
    "a pass decides the named structural clauses only; the value-level behaviour listed under not_decided is not decided",
]

PROPS = {
    "C02": {
        "rules": ["R-IDGUARD", "R-ACCEPT", "R-ALPHAGUARD", "R-NOTFOUND", "R-SCANEXIT", "R-BYTEINDEX", "R-SENTINEL", "R-CMPEND", "R-SCANLEN", "R-PREDINDEX"],
        "explanation": "CFG edge-dominance rules: every use of the id in the 13 extract overrides is dominated by both range tests and the "
                       "failing path stores length 0 and returns NULL; in the six hash lookups an ID is returned only under a successful full "
                       "comparison, each probe is preceded by the occupied-cell test, the probe loop is bounded by the table size; XBW accepts only "
                       "under the terminator-label test; pattern bytes index occ[] only after the alphabet test (reaching definitions on the CFG); "
                       "a helper whose result callers test against NORESULT can return it. "
                       "Added later: early scan exit, byte-indexed tables have 256 entries on every creation path, the all-ones sentinel is produced at the return width, comparators declare a match only at the end of the pattern.",
        "decided": ["ID range guard dominates every memory-reaching use of id, incl. 0 and SIZE_MAX (R-IDGUARD)",
                    "no acceptance without comparison; empty cell ends the probe; bounded probe loop; XBW terminator test (R-ACCEPT)",
                    "alphabet test before occ[] for every pattern byte, in the function or by construction at every call site (R-ALPHAGUARD)",
                    "not-found protocol between search helpers and their callers (R-NOTFOUND)", "every in-bucket scan has the early exit its four siblings have (R-SCANEXIT)",
                    "tables indexed by an arbitrary byte value have >= 256 entries on every path that creates them, loaders included (R-BYTEINDEX)",
                    "the hash lookups' all-ones `not found` sentinel is produced at the width of their return type, so locate's `search()+1` wraps to NORESULT (R-SENTINEL)",
                    "comparators that take the pattern length report a match only where the end of the pattern has been observed (R-CMPEND)",
                    "the scans that derive the FM-index / XBW alphabet and maximum symbol cover exactly the sequence handed to the wavelet-tree builder (R-SCANLEN)",
                    "the block selector takes the predecessor of a bound-search position only where that position is not the beginning (R-PREDINDEX)"],
        "not_decided": ["that the comparison routines compare correctly", "reads inside decoders for absent strings in front-coded buckets (bounded only by run-time offsets)"],
        "assumptions": COMMON_ASSUME,
    },
    "C04": {
        "rules": ["R-COPYBOUND", "R-NOTFOUND", "R-WINDOW", "R-ALPHAGUARD", "R-BUCKET", "R-FMMAP", "R-SCANEXIT", "R-CMPSIGN", "R-BSEARCH", "R-SCANSIGN", "R-BISECT", "R-IDRANGE", "R-EXTENT-FM", "R-CMPEND", "R-BYTEORDER"],
        "explanation": "The structural half of prefix search: the not-found protocol of the in-bucket search helpers (all five front-coding kinds), "
                       "agreement between the located ID range and the window handed to the string iterator under that iterator class's own "
                       "first/end protocol (symbolic count = right-left+1, incl. the empty range), alphabet guard for absent bytes. "
                       "Added later: early scan exit, comparator orientation / search direction / bisection interval coverage, match-only-at-end-of-pattern, the contiguous ID iterator's range (incl. the empty result), FM-index table extents in built and loaded objects, purity of the prefix operations.",
        "decided": ["a block copy whose count is a caller-supplied query length goes into a buffer whose extent covers that length or is tested against it (R-COPYBOUND; found the XBW string iterator, fixed a39b29e)",
                    "searchPrefix-style helpers can report not-found where callers test for it (R-NOTFOUND)",
                    "extractPrefix yields exactly right-left+1 strings for the range locatePrefix computes; extractTable numElements (R-WINDOW)",
                    "bytes occurring in no member cannot index occ[] (R-ALPHAGUARD)",
                    "three-way string comparators are oriented one way on all their paths (sign polarity of the pattern bytes in every returned value, R-CMPSIGN)",
                    "binary searches move the bound the comparator's orientation dictates, and in-bucket scans give up only once the stored string is larger (R-BSEARCH, R-SCANSIGN)",
                    "the left/right boundary bisections of prefix search cover the whole interval the main binary search left open, with the step forms of a closed resp. half-open interval (R-BISECT)",
                    "the contiguous ID iterator yields exactly [left,right] and nothing for the (NORESULT,NORESULT) pair (R-IDRANGE)",
                    "the FM-index tables (occ, alphabet, samples) are saved with the extent they are allocated with, so a loaded index is indexed within bounds like a built one (R-EXTENT-FM)",
                    "comparators that take the pattern length report a match only where the end of the pattern has been observed (R-CMPEND)",
                    "the prefix comparators order bytes as unsigned (R-BYTEORDER)"],
        "not_decided": ["correctness of the boundary binary searches and in-bucket scans on actual data (value-level)"],
        "assumptions": COMMON_ASSUME,
    },
    "C05": {
        "rules": ["R-STALEVAR", "R-CUMSUM", "R-DEDUP", "R-DUPSKIP", "R-SAMPLECOUNT", "R-STUB", "R-ALPHAGUARD", "R-EXTENT-FM", "R-STALESIZE", "R-SCANLEN"],
        "explanation": "Only the de-duplication protocol and the configuration guard are decided: the occurrence array is sorted over exactly [a,a+n) "
                       "and carries the 0 sentinel at a[n] before a duplicate-skipping iterator is created, is allocated with n+1 entries, and the "
                       "BWTsampling==0 configuration is an effect-free stub. "
                       "Added later: sibling agreement of the duplicate-skipping loops, sample-count agreement across allocation/save/load/conversion, stale container-size bounds, FM-index table extents and scan length.",
        "decided": ["no per-occurrence value computed only inside a possibly empty inner loop is read after it without being reset: one occurrence's result cannot leak into the next (R-STALEVAR; found SSA::locate, fixed 7838953)",
                    "the cumulative pass over the FM-index occ table reaches its last saved entry (R-CUMSUM)",
                    "sort-before-dedup over the exact range, sentinel store, allocation extent matches+1 (R-DEDUP)",
                    "BWTsampling==0 guard first, stub region returns null (R-STUB)", "absent bytes are rejected before indexing (R-ALPHAGUARD)",
                    "the FM-index tables (occ, alphabet, samples) are saved with the extent they are allocated with, so a loaded index is indexed within bounds like a built one (R-EXTENT-FM)",
                    "iterator bounds taken from container.size() are not made stale by a later shrink of the container (R-STALESIZE)",
                    "the scans that derive the FM-index / XBW alphabet and maximum symbol cover exactly the sequence handed to the wavelet-tree builder (R-SCANLEN)"],
        "not_decided": ["backward search, LF-walk and the position-to-ID mapping through the separator bitmap (value-level): the core of the property"],
        "assumptions": COMMON_ASSUME,
    },
    "C01": {
        "rules": ["R-STATE", "R-DERIVED", "R-INITCOVER", "R-MIRROR", "R-IDGUARD", "R-SELECTRANGE", "R-PROBE", "R-BUCKET", "R-FMMAP", "R-BYTEORDER", "R-SLOT", "R-CLAMP", "R-CMPSIGN", "R-BSEARCH", "R-SCANSIGN", "R-CHUNKINIT", "R-SCANLEN", "R-RESAVE-SCALAR", "R-VBYTE"],
        "explanation": "The clause `for the freshly built object and the reloaded one alike` is decided structurally: for every kind and both "
                       "creation paths, every field read by a query on an object of a class that path instantiates (rapid type analysis, virtual "
                       "calls resolved to final overriders of instantiated classes) is assigned by code reachable from that creation path, pointer "
                       "fields are not left NULL where operations dereference them unconditionally, and byte-indexed tables are filled over their "
                       "whole extent. Image/loader agreement (R-MIRROR) carries the state across save/load. "
                       "Added after the seeded-change rounds: sign-polarity analysis of the three-way comparators and direction of every binary search / in-bucket scan, unsigned byte order, block<->slot correspondence of the parallel build, the clamped bucket size, the chunk-scan start state, and scan-length agreement for the FM-index alphabet.",
        "decided": ["a scalar member computed from the data by the building path and read by queries/getSize/save is not left at a constant on the load path: it is read back or recomputed (R-DERIVED)",
                    "built/loaded state parity for all 13 kinds x 2 creation paths (R-STATE)", "full initialisation of byte-indexed tables (R-INITCOVER)",
                    "image carries every field load needs (R-MIRROR)", "extract range guard (R-IDGUARD)",
                    "insert and lookup walk the same probe sequence in all 8 double-hashing walks (R-PROBE)",
                    "ID <-> (bucket, offset) arithmetic is an inverse pair in all five front-coding kinds (R-BUCKET)", "FM-index row <-> ID mapping agrees at all five sites (R-FMMAP)",
                    "in the block dictionary each finished block is stored in the slot reserved for it at submission, so parts[k] matches cut_samples[k]/starting_indexes[k] (R-SLOT)",
                    "the build loop and the queries use the same (clamped) bucket size (R-CLAMP)",
                    "three-way string comparators are oriented one way on all their paths (sign polarity of the pattern bytes in every returned value, R-CMPSIGN)",
                    "binary searches move the bound the comparator's orientation dictates, and in-bucket scans give up only once the stored string is larger (R-BSEARCH, R-SCANSIGN)",
                    "every chunk scan handed to the Huffman/Hu-Tucker chunk decoder starts from the same state as its siblings (R-CHUNKINIT)",
                    "the scans that derive the FM-index / XBW alphabet and maximum symbol cover exactly the sequence handed to the wavelet-tree builder (R-SCANLEN)",
                    "scalar header values (element / bucket counts, sizes, widths) read from the image are kept unchanged in the field they were saved from (R-RESAVE-SCALAR)",
                    "the variable-byte decoder that front coding uses for shared-prefix lengths agrees with its encoder (R-VBYTE)"],
        "not_decided": ["that decoding inverts encoding for every string (Hu-Tucker, Huffman, Re-Pair, DAC, rank/select values)", "binary-search correctness",
                        "HHTFC / RPHTFC mis-decode small inputs even when reloaded (seen by triage probes replays/t_roundtrip.cpp; value-level, outside every rule)"],
        "assumptions": COMMON_ASSUME,
    },
    "C07": {
        "rules": ["R-DELETECAST", "R-COPYBOUND", "R-VARFIELD", "R-CHUNKINIT", "R-ITERSTATE", "R-STATE", "R-DERIVED", "R-FIXEDBUF", "R-INITCOVER", "R-EXTENT", "R-KILLUSE", "R-DANGLING", "R-ALPHAGUARD", "R-DEDUP", "R-IDGUARD", "R-SHIFT", "R-CLAMP", "R-ZEROFILL", "R-GROW", "R-SLACK", "R-ALLOCFORM", "R-LOCKSET", "R-BYTEINDEX", "R-REFCOUNT", "R-COUNTERWIDTH", "R-BUCKET", "R-PREDINDEX"],
        "explanation": "Structural preconditions of memory safety, each a necessary condition with confirmed instances: no operation consults state the "
                       "creation path never set, saved extents equal allocated extents, nothing reachable from a dictionary is freed by an operation or "
                       "left dangling by a loader, pattern bytes are range-checked before indexing, duplicate iterators have their sentinel, ids are "
                       "guarded, shifts stay below the operand width over the whole legal domain, bucket size 0/1 cannot reach the arithmetic.",
        "decided": ["no object is deleted through an explicit cast to a class unrelated to its own (R-DELETECAST; found the XBW loader, fixed d7ae549)",
                    "a block copy whose count is a caller-supplied query length goes into a buffer whose extent covers that length or is tested against it (R-COPYBOUND; found the XBW string iterator, fixed a39b29e)",
                    "callers of the libcds variable-field primitives form the end of a possibly empty field at size_t width, so that the empty-field test of the primitives holds (R-VARFIELD; found BitSequenceRRR::build / rank1, fixed 4286cb7)",
                    "every field an iterator's hasNext/next/size reads is assigned by each constructor of the concrete iterator class (R-ITERSTATE; found the block table iterator's size, fixed 1935db3)",
                    "a scalar member computed from the data by the building path and read by queries/getSize/save is not left at a constant on the load path: it is read back or recomputed (R-DERIVED)",
                    "stores into fixed-size arrays through a run-time index have some bound on the way to the store (R-FIXEDBUF; only the absence of any bound is reported)",
                    "no uninitialised/NULL state is consulted (R-STATE, R-INITCOVER, R-ZEROFILL)", "no over-read at save (R-EXTENT)",
                    "no use after free across API histories, no dangling loader state (R-KILLUSE, R-DANGLING)",
                    "index guards: alphabet, id range, sentinel (R-ALPHAGUARD, R-IDGUARD, R-DEDUP)", "no undefined shift (R-SHIFT)", "clamped bucket size (R-CLAMP)",
                    "growth guards re-test after growing (R-GROW, loop form)", "PFC guard slack covers the largest appended extent for every length / shared prefix (R-SLACK)", "release form matches allocation form for every pointer field (R-ALLOCFORM)",
                    "the shared parts vector that the producer grows is indexed by workers only under its mutex: no access to a reallocated buffer (R-LOCKSET)",
                    "tables indexed by an arbitrary byte value have >= 256 entries on every path that creates them, loaders included (R-BYTEINDEX)",
                    "the RRR offset table shared through a static pointer is acquired once by every constructor and released with the pointer reset (R-REFCOUNT)",
                    "no length / size handed to a container is counted in a local narrower than 32 bits (R-COUNTERWIDTH)",
                    "the scan bound of the last (partial) bucket is taken for the bucket that is actually scanned (R-BUCKET)",
                    "the block selector takes the predecessor of a bound-search position only where that position is not the beginning (R-PREDINDEX)"],
        "not_decided": ["all index arithmetic over decoded data (bucket scans, chunk decoding with b_remain, expandRule recursion depth, scratch buffers sized "
                        "from maxlength/maxcomplength), buffer growth estimates, suffix sorting on tiny inputs, termination: a pass means the structural "
                        "preconditions hold, not that the library is memory safe"],
        "assumptions": COMMON_ASSUME,
    },
    "C12": {
        "rules": ["R-CLAMP", "R-PARAMFLOW", "R-DISPATCH", "R-PROBE", "R-BUCKET", "R-SLOT", "R-JOIN", "R-BISECT"],
        "explanation": "The last sentence of the property (bucket size below 2 is replaced by 2) is decided by def-use on the five front-coding constructors; "
                       "thread_count and cut_size are shown to flow only into the pool size / the cut decision; every accepted hash load option has a loader.",
        "decided": ["raw bucket size never used after the clamp (R-CLAMP)", "thread_count -> pool only, cut_size -> cut decision and header only (R-PARAMFLOW)",
                    "Hash::load has an arm for each of the three representations the kind loaders accept (R-DISPATCH)",
                    "thread count: blocks land in submission-order slots and the constructor joins all tasks before returning (R-SLOT, R-JOIN)",
                    "whatever the bucket size, the boundary searches of prefix search cover the interval left open (R-BISECT)"],
        "not_decided": ["equality of answers across bucket sizes / overheads / samplings (metamorphic, value-level)"],
        "assumptions": COMMON_ASSUME,
    },
    "C15": {
        "rules": ["R-METADATA", "R-MIRROR", "R-NARROW", "R-RESAVE-SCALAR"],
        "explanation": "Counter discipline in every building constructor (CFG must-pass-through between consecutive reads of the input) and image/loader "
                       "agreement for the two header fields.",
        "decided": ["each consumed string is counted exactly once; maxlength raised under a comparison with the length just read; derived kinds copy both (R-METADATA)",
                    "both fields are written and read back with equal width and position (R-MIRROR)",
                    "no save writes a data member through a narrower scalar type than the member has (R-NARROW)",
                    "scalar header values (element / bucket counts, sizes, widths) read from the image are kept unchanged in the field they were saved from (R-RESAVE-SCALAR)"],
        "not_decided": ["that the length reported by the input iterator is the string's length (trusted)"],
        "assumptions": COMMON_ASSUME,
    },
    "C17": {
        "rules": ["R-DERIVED-CODEC", "R-SHIFT", "R-SETFIELD", "R-VBYTE", "R-MIRROR", "R-EXTENT", "R-ZEROFILL", "R-NARROW", "R-COUNTERWIDTH"],
        "explanation": "For the packed integer array the shift amounts of get_field/set_field/maxVal are evaluated from the source expressions over the whole "
                       "finite domain (width 1..64 x in-word offset 0..63) under the guards that dominate each shift: exact. Save/load agreement and "
                       "allocation extents for LogSequence, DAC_VLS, DAC_BVLS; zero-fill before read-modify-write packing.",
        "decided": ["a scalar member computed from the data by the building path and read by queries/getSize/save is not left at a constant on the load path: it is read back or recomputed (R-DERIVED-CODEC, DAC sequences and packed arrays)",
                    "no shift by >= operand width for any width 1..64 and offset, incl. fields straddling a word (R-SHIFT)",
                    "LogSequence / DAC_VLS / DAC_BVLS survive save/load structurally (R-MIRROR, R-EXTENT)", "packed arrays are filled before set_field/bitset (R-ZEROFILL)", "VByte encoder/decoder (both copies) agree on group width, mask, terminator bit and threshold, and no decoder loop bound cuts off the groups a 32-bit value needs (R-VBYTE)", "set_field clears before it sets (R-SETFIELD)",
                    "no save writes a data member through a narrower scalar type than the member has (R-NARROW)",
                    "no length / size handed to a container is counted in a local narrower than 32 bits (R-COUNTERWIDTH)"],
        "not_decided": ["round trip of values, DAC level layout, VByte codec value round trip (value-level)"],
        "assumptions": COMMON_ASSUME,
    },
    "C03": {
        "rules": ["R-RANKIDENT", "R-DERIVED-ORDER", "R-BUCKET", "R-FMMAP", "R-NOSORT", "R-BYTEORDER", "R-CLAMP", "R-CMPSIGN", "R-BSEARCH", "R-SCANSIGN", "R-CMPEND", "R-SCANLEN", "R-RESAVE-SCALAR", "R-VBYTE"],
        "explanation": "Order preservation decided structurally: rank operations are the identity / delegate to extract in the seven order-preserving "
                       "kinds, ID arithmetic is consistent with consuming the input in order, FM-index row mapping agrees, and no builder of an "
                       "order-preserving kind reorders its input (no sort reachable on their build paths). "
                       "Added later: unsigned byte order, comparator orientation and search direction (sign-polarity analysis), clamp semantics, match-only-at-end-of-pattern, FM-index scan length.",
        "decided": ["a kind whose rank operations are the identity hands out IDs in input order: nothing on its build path reorders what it stores (R-RANKIDENT; StringDictionaryXBW does - known finding)",
                    "a scalar member computed from the data by the building path and read by queries/getSize/save is not left at a constant on the load path: it is read back or recomputed (R-DERIVED-ORDER, the order-preserving kinds)",
                    "locateRank is the identity and extractRank delegates to extract (R-BUCKET rank part)", "bucket arithmetic (R-BUCKET)",
                    "FM-index row <-> ID mapping (R-FMMAP)", "no sort on the build path of order-preserving kinds (R-NOSORT)", "comparators order bytes as unsigned, in int (R-BYTEORDER)",
                    "the build loop and the queries use the same (clamped) bucket size, else IDs stop being ranks (R-CLAMP)",
                    "three-way string comparators are oriented one way on all their paths (sign polarity of the pattern bytes in every returned value, R-CMPSIGN)",
                    "binary searches move the bound the comparator's orientation dictates, and in-bucket scans give up only once the stored string is larger (R-BSEARCH, R-SCANSIGN)",
                    "comparators that take the pattern length report a match only where the end of the pattern has been observed (R-CMPEND)",
                    "the scans that derive the FM-index / XBW alphabet and maximum symbol cover exactly the sequence handed to the wavelet-tree builder (R-SCANLEN)",
                    "scalar header values (element / bucket counts, sizes, widths) read from the image are kept unchanged in the field they were saved from (R-RESAVE-SCALAR)",
                    "the variable-byte decoder that front coding uses for shared-prefix lengths agrees with its encoder (R-VBYTE)"],
        "not_decided": ["the alphabetic property of Hu-Tucker codes (memcmp on encoded headers = string order) and suffix-array order (value-level)"],
        "assumptions": COMMON_ASSUME,
    },
    "C19": {
        "rules": ["R-VARFIELD", "R-DERIVED-CDS", "R-CUMSUM", "R-MIRROR", "R-EXTENT", "R-DISPATCH", "R-SAVEPURE", "R-CONSTPURE", "R-NARROW", "R-REFCOUNT"],
        "explanation": "ONLY the last clause of the property (`the answers are unchanged after save/load`) is addressed, and only structurally: "
                       "writer/reader agreement, allocation extents, tag dispatch, save purity and element-to-field restoration for the bundled classes "
                       "the dictionaries persist and for the variants named in the property (BitSequenceRG/RRR/SDArray/DArray/375, WaveletTree, "
                       "WaveletTreeNoptrs, their nodes, coders and mappers). The core of the property - rank/select/access equal their definitions - "
                       "is value-level and NOT decided. "
                       "Added later: const query methods are effect-free (MOD summaries), non-image fields are related to image values through every constructor's definition, the RRR table's reference count discipline, no narrowing writes.",
        "decided": ["callers of the libcds variable-field primitives form the end of a possibly empty field at size_t width, so that the empty-field test of the primitives holds (R-VARFIELD; found BitSequenceRRR::build / rank1, fixed 4286cb7)",
                    "a scalar member computed from the data by the building path and read by queries/getSize/save is not left at a constant on the load path: it is read back or recomputed (R-DERIVED-CDS, libcds classes)",
                    "in-place cumulative-count passes over symbol-count tables reach the last entry used afterwards (R-CUMSUM)",
                    "save/load element-by-element agreement of every bundled class in the cone (R-MIRROR)", "allocation = saved extent (R-EXTENT)",
                    "family dispatchers have an arm for every persisted class and the right tag (R-DISPATCH)", "save writes nothing but the stream (R-SAVEPURE)",
                    "const query methods of the bundled structures write no object state and no global, so an answer cannot depend on earlier queries (R-CONSTPURE)",
                    "no save writes a data member through a narrower scalar type than the member has (R-NARROW)",
                    "the RRR offset table shared through a static pointer is acquired once by every constructor and released with the pointer reset (R-REFCOUNT)"],
        "not_decided": ["access/rank/select agree with their plain definitions for every bit vector, sampling parameter and alphabet: the core of the property (value-level)",
                        "state recomputed at load (RRR sampling, RG rank directory) equals the built state"],
        "assumptions": COMMON_ASSUME,
    },
    "C20": {
        "rules": ["R-DERIVED-RP", "R-FIXEDBUF", "R-RPZERO", "R-RPWIDTH", "R-RPGAP", "R-MIRROR", "R-NARROW", "R-BACKPTR"],
        "explanation": "Structural conditions of the Re-Pair contract: who may raise a pair frequency and under which guard (terminator exclusion), "
                       "purge-before-extract on every path, identifier width computed as bits(rules+terminals) at every sizing site, and agreement of the "
                       "gap-pointer encoding between the compressor (writer) and the five compaction loops (readers). The grammar's image is covered by R-MIRROR. "
                       "Added later: back-pointer pairing in the compressor's hash table and frequency arrays, no narrowing writes of grammar fields, writer early returns.",
        "decided": ["a scalar member computed from the data by the building path and read by queries/getSize/save is not left at a constant on the load path: it is read back or recomputed (R-DERIVED-RP, the Re-Pair grammar)",
                    "the rule-expansion code stores into no fixed-size buffer without a bound (R-FIXEDBUF)",
                    "no rule can contain symbol 0: guard dominates the only increment, purge precedes every extraction (R-RPZERO)",
                    "identifier storage is sized with bits(rules+terminals) at every site (R-RPWIDTH)",
                    "gap pointers: writer -t-1, readers -(v+1), loops advance (R-RPGAP)", "grammar survives save/load structurally (R-MIRROR)",
                    "no save writes a data member through a narrower scalar type than the member has (R-NARROW)",
                    "the compressor's hash table / frequency arrays and the records' back-pointers (kpos, hpos) are updated together at every store (R-BACKPTR)"],
        "not_decided": ["losslessness of the pair-replacement bookkeeping (L, Heap, Hash invariants): value-level"],
        "assumptions": COMMON_ASSUME,
    },
    "C13": {
        "rules": ["R-ITERSTATE", "R-OUTLEN", "R-WINDOW", "R-DEDUP", "R-DUPSKIP", "R-FMMAP", "R-STUB", "R-IDRANGE", "R-STALESIZE", "R-CHUNKINIT"],
        "explanation": "Iterator protocol rules: every next() stores the length on every path to a non-null return and advances a field that "
                       "hasNext() reads (or consumes its work list) on every path; windows given at every extractTable/extractPrefix site match "
                       "the class protocol; duplicate-skipping iterators never read past their array (sentinel + extent); iterator steps write "
                       "only iterator-owned memory. "
                       "Added later: duplicate-skip loops, FM row mapping of the iterators, the contiguous ID iterator's range, stale size bounds, the chunk-scan start state.",
        "decided": ["every field an iterator's hasNext/next/size reads is assigned by each constructor of the concrete iterator class (R-ITERSTATE; found the block table iterator's size, fixed 1935db3)",
                    "length reported and cursor advanced on every path (R-OUTLEN)", "window = numElements / right-left+1 at every construction site (R-WINDOW)",
                    "sentinel and extent for duplicate skipping (R-DEDUP)", "XBW::extractTable is an effect-free stub (R-STUB)",
                    "the contiguous ID iterator yields exactly [left,right] and nothing for the (NORESULT,NORESULT) pair (R-IDRANGE)",
                    "iterator bounds taken from container.size() are not made stale by a later shrink of the container (R-STALESIZE)",
                    "every chunk scan handed to the Huffman/Hu-Tucker chunk decoder starts from the same state as its siblings (R-CHUNKINIT)"],
        "not_decided": ["that the strings produced are the right ones and NUL-terminated after decoding (value-level)"],
        "assumptions": COMMON_ASSUME,
    },
    "C06": {
        "rules": ["R-MIRROR", "R-EXTENT", "R-TAGS", "R-DISPATCH", "R-PADDING", "R-STATE", "R-DERIVED", "R-SELECTRANGE", "R-NARROW", "R-PROBE", "R-RESAVE-SCALAR"],
        "explanation": "Writer/reader agreement decided statically for every save/load pair in the cone of classes the 13 kinds persist "
                       "(rapid type analysis from their constructors) plus libcds classes named in C19: both halves are abstracted to "
                       "ordered trees of stream elements whose sizes are symbolic expressions over earlier image values, and compared "
                       "element by element (canonical polynomial form, else exhaustive evaluation of the two source expressions on a grid). "
                       "Allocation extents are compared with saved counts, tag dispatchers with the tags the savers write.",
        "decided": ["a scalar member computed from the data by the building path and read by queries/getSize/save is not left at a constant on the load path: it is read back or recomputed (R-DERIVED)",
                    "reader consumes exactly what the writer emits: width, count, nested class, guards, loops, field identity (R-MIRROR)",
                    "saved byte count equals allocated byte count in every building constructor (R-EXTENT)",
                    "kind tags: distinct, checked before anything else, generic loader arm per kind (R-TAGS)",
                    "libcds/Hash family dispatchers: arm per persisted class, tag equals the tag its save writes, peek restores position, no other seeking (R-DISPATCH)",
                    "no padded type is moved as raw bytes (R-PADDING)",
                    "every field an operation reads on a loaded object is assigned on the load path (R-STATE)",
                    "the compact hash loaders enumerate occupied cells over 1..n like their sibling (R-SELECTRANGE)",
                    "no save writes a data member through a narrower scalar type than the member has (R-NARROW)",
                    "the lookups of the loaded hash representations (Hashdh / HashBdh / HashBBdh) walk the probe sequence the builder's insert used (R-PROBE)",
                    "scalar header values (element / bucket counts, sizes, widths) read from the image are kept unchanged in the field they were saved from (R-RESAVE-SCALAR)"],
        "not_decided": ["state recomputed at load (RRR sampling, HashBdh/HashBBdh compaction, DecodingTree::buildTree) equals the built state (value-level)",
                        "counts that depend on container sizes not present in the image are compared structurally only (listed as undecided in the evidence)",
                        "the generic loader's absolute seekg(0) assumes the image starts the stream (outside the self-delimiting clause, which is stated for a kind's own loader)"],
        "assumptions": COMMON_ASSUME,
    },
    "C08": {
        "rules": ["R-CURSORFILL", "R-DERIVED", "R-SAVEPURE", "R-KILLUSE", "R-DANGLING", "R-TAGSELF", "R-RESAVE", "R-EXTENT", "R-PADDING", "R-ZEROFILL", "R-NONDET", "R-STATE", "R-INITEXTENT"],
        "explanation": "Interprocedural effect analysis (MOD/FREE summaries over access-path regions with pointer roots, fixpoint over "
                       "the call graph, virtual calls by class hierarchy) shows that the call closure of every save in the persisted cone "
                       "writes only the stream and frees nothing; tag identity, element-to-field restoration and extent/padding rules show "
                       "the image bytes are a function of the object and that a loaded object can reproduce them.",
        "decided": ["a byte array saved up to a cursor member is stored into between any two consecutive advances of the cursor in the building constructor (R-CURSORFILL, definite form; found the last byte of the HASHHF text, fixed 89c3c75)",
                    "save closure: no write to the object, to anything reachable from it, to a global or through another parameter (R-SAVEPURE)",
                    "no query/save frees dictionary memory; no loader leaves a used field dangling: histories save;save, load;save (R-KILLUSE)",
                    "the tag a save writes is the kind's own on every creation path (R-TAGSELF)",
                    "every image element is restored into the field save writes it from (R-RESAVE)",
                    "no over-read at save (R-EXTENT), no padding bytes in the image (R-PADDING)",
                    "bit-packed arrays are filled before read-modify-write stores (R-ZEROFILL); no clock/random/pid dependence on build or save paths (R-NONDET)",
                    "save on a loaded object reads only state the loader set (R-STATE)",
                    "saved arrays allocated uninitialised are written over their whole extent wherever all writes are whole-range writes (R-INITEXTENT)"],
        "not_decided": ["that every element of every saved array was initialised by the builder (value/coverage reasoning per loop)",
                        "byte equality of two builds from the same input (needs R-NONDET over the builders; value-level beyond that)"],
        "assumptions": COMMON_ASSUME + ["pointer roots are tracked flow-insensitively per function; a store through a pointer loaded from a dictionary field is attributed to that field"],
    },
    "C09": {
        "rules": ["R-LOCKSET", "R-SLOT", "R-JOIN", "R-PARAMFLOW", "R-WORKERPURE", "R-NONDET", "R-CV", "R-INITEXTENT"],
        "explanation": "Schedule-independence argued structurally: every worker-visible input is fixed before the task is queued and every "
                       "worker-written output goes to a slot reserved before queuing (R-SLOT); the constructor cannot return, free the input or "
                       "let captures die before wait -> stop -> join on any CFG path (R-JOIN); thread_count reaches only the pool size "
                       "(R-PARAMFLOW); the task closure (rapid type analysis from the queued lambda) touches no mutable global and never stores "
                       "into the shared text (R-WORKERPURE); no clock/random/pid/pointer-order dependence on any build path (R-NONDET); the "
                       "completion wait obeys the monitor discipline (R-CV).",
        "decided": ["slot reserved under the lock before queuing, captured by value, only store of the task into shared state (R-SLOT)",
                    "wait/stop/join on all paths, input and captures outlive the workers (R-JOIN)",
                    "thread_count -> pool size only; cut_size -> cut decision and header only (R-PARAMFLOW)",
                    "task closure: no global/static write, no read of a written global, no store into the input text (R-WORKERPURE)",
                    "build/save closure free of nondeterminism sources (R-NONDET)", "completion wait: updates under the waiter's mutex, followed by notify (R-CV)",
                    "saved arrays allocated uninitialised are written over their whole extent wherever all writes are whole-range writes (R-INITEXTENT); an uncovered tail makes the image depend on the allocator's history, i.e. on the schedule"],
        "not_decided": ["value-level determinism of the sequential block builder (shared with C08)"],
        "assumptions": COMMON_ASSUME + ["new/malloc are thread-safe; std streams are internally synchronised"],
    },
    "C10": {
        "rules": ["R-CV", "R-ONCE", "R-DRAIN", "R-LOCKSET", "R-LOCKORDER"],
        "explanation": "Lock-set dataflow on clang CFGs (RAII guards: gen at construction, kill at scope end/unlock; interprocedural "
                       "must-held = intersection over call sites) with reference members resolved to the pool's objects. Decides the monitor "
                       "discipline that makes lost wake-ups impossible, exactly-once removal and invocation of tasks, and a global lock order.",
        "decided": ["every update of predicate state (queue, stop flags, completion counter) holds the waiter's mutex and is followed by notify on all paths (R-CV)",
                    "pop only in Worker::run, under the shared mutex held since the non-empty test; task invoked exactly once, outside the lock; thread started last (R-ONCE)",
                    "queue / stop flag accesses share a lock (R-LOCKSET)", "acyclic lock order, no self-lock (R-LOCKORDER)",
                    "every exit of the worker loop has observed stopped and an empty queue (R-DRAIN)"],
        "not_decided": ["nothing temporal is model-checked (different technique family); OS scheduler fairness assumed"],
        "assumptions": COMMON_ASSUME + ["object identity is abstracted to the class (one queue / shared mutex per pool)"],
    },
    "C11": {
        "rules": ["R-LOCKSET", "R-WORKERPURE", "R-JOIN", "R-SLOT"],
        "explanation": "Static lock-set race check over every location shared between the producer role and the worker role (pool fields, "
                       "fields and by-reference captures the task lambdas touch), with constructor-before-start and after-join exemptions "
                       "justified by R-ONCE/R-JOIN; no unguarded global below the task (R-WORKERPURE).",
        "decided": ["each written location reachable from worker threads has a non-empty common lock set over all its accesses (R-LOCKSET)",
                    "no global/static mutable state in the task closure (R-WORKERPURE)", "lifetime of captures and input spans the workers (R-JOIN)",
                    "tasks write only their reserved slot and the counter, under the lock (R-SLOT)"],
        "not_decided": ["races inside libstdc++/libc (assumed thread-safe where documented)"],
        "assumptions": COMMON_ASSUME + ["no inline assembly or atomics in the closure"],
    },
    "C14": {
        "rules": ["R-QUERYPURE", "R-PATTERN", "R-KILLUSE", "R-REFCOUNT"],
        "explanation": "The same effect analysis applied to the 9 query operations, getSize, numElements, maxLength of all 13 kinds and to "
                       "hasNext/next of every iterator class: no store or free reaches dictionary state, a global (other than the standard "
                       "output streams) or memory an iterator merely borrows; every store through a query's pattern pointer is undone on "
                       "every path (CFG must-pass-through).",
        "decided": ["queries write no dictionary field, sub-object, or global (R-QUERYPURE)",
                    "iterator steps write only their own fields and owned buffers, never borrowed dictionary storage (R-QUERYPURE)",
                    "stores through the pattern pointer are restored on all exits (R-PATTERN)",
                    "queries free nothing reachable from the dictionary (R-KILLUSE)",
                    "the RRR offset table shared through a static pointer is acquired once by every constructor and released with the pointer reset (R-REFCOUNT)"],
        "not_decided": ["equality of answers across histories is inferred from absence of writable shared state, not observed"],
        "assumptions": COMMON_ASSUME + ["mod/ref by pointer root without full alias analysis (conservative attribution to the field a pointer was loaded from)"],
    },
    "C16": {
        "rules": ["R-STUB", "R-TAGS"],
        "explanation": "Static AST/CFG rules over every translation unit of /repo: the 45 unsupported-operation bodies are "
                       "effect-free constant-null returns (for this property the code shape is the behaviour); every kind's loader "
                       "rejects a foreign tag before allocating or reading further; the generic loader has exactly one arm per "
                       "kind tag and returns NULL otherwise.",
        "decided": ["stub bodies: no state access, no effect, only stream output, null return (R-STUB)",
                    "FMINDEX substring operations: BWTsampling==0 test first, stub region returns (R-STUB)",
                    "loader tag check dominates every allocation and stream read (R-TAGS)",
                    "generic dispatcher: arm per tag, right callee, NULL fall-through, no constructing default (R-TAGS)"],
        "not_decided": ["stream insertion into cout/cerr does not throw (assumed)"],
        "assumptions": COMMON_ASSUME,
    },
}


NOT_YET = "check under construction in this commit; see DESIGN.md section 4 for the planned rules"
NOT_APPLICABLE = {
    "C18": "prefix-freeness, completeness, alphabetic order and decode(encode)=id are statements about numbers computed from "
           "arbitrary frequency vectors and a 16-bit chunk table filled at run time; no clause is visible in code shape "
           "(the nearby structural facts are claimed under C06/C07)",
}
for _p in ["C%02d" % i for i in range(1, 21)]:
    if _p not in PROPS and _p not in NOT_APPLICABLE:
        NOT_APPLICABLE[_p] = NOT_YET


def run_controls(rules, tier):
    return []
