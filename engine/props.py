"""Property -> rules table, with the clause accounting that goes into the evidence files."""
import rules_dispatch  # noqa: F401  (registers rules)

COMMON_ASSUME = [
    "clang 14 front end parses /repo as g++ 12 compiles it (same flags, -std=gnu++17, -UNDEBUG)",
    "Build.cpp / Test.cpp (CLI drivers, not in CMakeLists.txt) and test/ are outside the analysed program",
    "a pass decides the named structural clauses only; the value-level behaviour listed under not_decided is not decided",
]

PROPS = {
    "C16": {
        "rules": ["R-STUB", "R-TAGS"],
        "explanation": "Static AST/CFG rules over every translation unit of /repo: the 45 unsupported-operation bodies are "
                       "effect-free constant-null returns (for this property the code shape is the behaviour); every kind's loader "
                       "rejects a foreign tag before allocating or reading further; the generic loader has exactly one arm per "
                       "kind tag and returns NULL otherwise.",
        "decided": ["stub bodies: no state access, no effect, only stream output, null return (R-STUB)",
                    "FMINDEX substring operations: BWTsampling==0 test first, stub region returns (R-STUB)",
                    "loader tag check dominates every allocation and stream read (R-TAGS)",
                    "generic dispatcher: arm per tag, right callee, NULL fall-through, no constructing default (R-TAGS)"],
        "not_decided": ["stream insertion into cout/cerr does not throw (assumed)"],
        "assumptions": COMMON_ASSUME,
    },
}


NOT_YET = "check under construction in this commit; see DESIGN.md section 4 for the planned rules"
NOT_APPLICABLE = {
    "C18": "prefix-freeness, completeness, alphabetic order and decode(encode)=id are statements about numbers computed from "
           "arbitrary frequency vectors and a 16-bit chunk table filled at run time; no clause is visible in code shape "
           "(the nearby structural facts are claimed under C06/C07)",
}
for _p in ["C%02d" % i for i in range(1, 21)]:
    if _p not in PROPS and _p not in NOT_APPLICABLE:
        NOT_APPLICABLE[_p] = NOT_YET


def run_controls(rules, tier):
    return []
