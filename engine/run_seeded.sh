#!/bin/bash
# Apply one seeded mutation to /repo, run the given property checks (default: all claimed), undo it.
# usage: run_seeded.sh <patch.diff> [Cxx ...]
P=$1; shift
cd /verif
if ! git -C /repo apply --check "$P" 2>/dev/null; then echo "PATCH-DOES-NOT-APPLY $P"; exit 3; fi
git -C /repo apply "$P"
PROPS="$@"
if [ -z "$PROPS" ]; then PROPS=$(python3 -c "import json;print(' '.join(c['property_id'] for c in json.load(open('/verif/MANIFEST.json'))['checks']))"); fi
for p in $PROPS; do
  out=$(python3 engine/check.py $p 2>&1); rc=$?
  echo "$p rc=$rc $(echo "$out" | grep -c '^VIOLATION') violation(s)"
  echo "$out" | grep -B1 '^VIOLATION\|ANALYSIS-BROKEN' | grep -v '^VIOLATION\|^--' | cut -c1-260
done
git -C /repo checkout -- .
git -C /repo status --short | grep -v _build
