"""Core program model on top of the csdfacts output: functions, AST helpers, CFG queries,
class hierarchy, call graph. No rule lives here."""
import collections
import factsdb
from factsdb import AnalysisBroken

TRANSPARENT = {"ParenExpr", "ImplicitCastExpr", "ExprWithCleanups", "MaterializeTemporaryExpr",
               "CXXBindTemporaryExpr", "ConstantExpr", "SubstNonTypeTemplateParmExpr", "FullExpr"}
EXPLICIT_CASTS = {"CStyleCastExpr", "CXXStaticCastExpr", "CXXReinterpretCastExpr", "CXXConstCastExpr",
                  "CXXFunctionalCastExpr"}

# child slots in source order, per node kind (everything else: generic list 'c')
NAMED_SLOTS = ("init", "condvar", "range", "begin", "end", "loopvar", "obj", "calleeexpr", "base", "idx", "lhs", "rhs",
               "cond", "then", "else", "inc", "body", "sub", "size", "value")
FOR_ORDER = ("init", "cond", "inc", "body")
DO_ORDER = ("body", "cond")


def children(n):
    """Direct child nodes of an AST node, in source order."""
    out = []
    k = n.get("k")
    if k == "ForStmt":
        order = FOR_ORDER
    elif k == "DoStmt":
        order = DO_ORDER
    elif k == "CXXNewExpr":
        order = ("size", "init")
    elif k == "CaseStmt":
        order = ("lhs", "sub")
    else:
        order = NAMED_SLOTS
    for s in order:
        c = n.get(s)
        if isinstance(c, dict):
            out.append(c)
    for s in ("args", "inits", "c"):
        lst = n.get(s)
        if isinstance(lst, list):
            for c in lst:
                if isinstance(c, dict):
                    # ctor inits entries are wrappers {field, init}
                    if "k" in c:
                        out.append(c)
                    elif isinstance(c.get("init"), dict):
                        out.append(c["init"])
    if k == "DeclStmt":
        for d in n.get("decls", []):
            if isinstance(d.get("init"), dict):
                out.append(d["init"])
    return out


def walk(n):
    """Pre-order traversal (source order)."""
    stack = [n]
    while stack:
        x = stack.pop()
        yield x
        cs = children(x)
        stack.extend(reversed(cs))


def strip(n, casts=True):
    """Look through parentheses, implicit casts and (optionally) explicit casts."""
    while isinstance(n, dict):
        k = n["k"]
        if k in TRANSPARENT or (casts and k in EXPLICIT_CASTS):
            s = n.get("sub")
            if s is None:
                cs = children(n)
                if len(cs) != 1:
                    return n
                s = cs[0]
            n = s
        else:
            return n
    return n


def const_value(n):
    """Integer value of a node if clang folded it."""
    if not isinstance(n, dict):
        return None
    if "cv" in n:
        return n["cv"]
    if "cvs" in n:                     # values beyond the JSON-safe range are emitted as strings
        try:
            return int(n["cvs"])
        except (TypeError, ValueError):
            pass
    if n["k"] in ("IntegerLiteral", "CharacterLiteral", "CXXBoolLiteralExpr", "CXXNullPtrLiteralExpr", "GNUNullExpr") and "v" in n:
        return n["v"]
    s = strip(n)
    if s is not n:
        return const_value(s)
    return None


def callee_name(n):
    """Unqualified name of a call's resolved callee."""
    return n.get("fn", "").split("::")[-1]


class Func:
    def __init__(self, raw, db):
        self.raw = raw
        self.db = db
        self.id = raw["id"]
        self.qn = raw["qn"]
        self.name = raw["n"]
        self.rec = raw.get("rec")
        self.file = raw["file"]
        self.line = raw["line"]
        self.types = raw["_types"]
        self.params = raw.get("params", [])
        self.body = raw.get("body")
        self.is_ctor = raw.get("ctor", False)
        self.is_dtor = raw.get("dtor", False)
        self.is_lambda = raw.get("islambda", False)
        self.parent_id = raw.get("parent")
        self.virtual = raw.get("virtual", False)
        self.static = raw.get("static", False)
        self.access = raw.get("access")
        self._byid = None
        self._parent = None
        self._cfg = None

    def __repr__(self):
        return "<Func %s %s:%d>" % (self.qn, self.file, self.line)

    @property
    def loc(self):
        return "%s:%d" % (self.file, self.line)

    def nloc(self, n):
        return "%s:%d" % (self.file, n.get("l", self.line))

    def roots(self):
        out = []
        for i in self.raw.get("inits", []):
            if isinstance(i.get("init"), dict):
                out.append(i["init"])
        if self.body:
            out.append(self.body)
        return out

    def nodes(self):
        for r in self.roots():
            yield from walk(r)

    def _index(self):
        if self._byid is not None:
            return
        self._byid = {}
        self._parent = {}
        for r in self.roots():
            stack = [(r, None)]
            while stack:
                n, p = stack.pop()
                if "id" in n:
                    self._byid[n["id"]] = n
                    self._parent[n["id"]] = p
                for c in children(n):
                    stack.append((c, n))

    def node(self, nid):
        self._index()
        return self._byid.get(nid)

    def parent(self, n):
        self._index()
        return self._parent.get(n.get("id"))

    def ancestors(self, n):
        p = self.parent(n)
        while p is not None:
            yield p
            p = self.parent(p)

    def tstr(self, n_or_idx):
        t = self.type(n_or_idx)
        return t["s"] if t else "?"

    def type(self, n_or_idx):
        idx = n_or_idx if isinstance(n_or_idx, int) else n_or_idx.get("t")
        if idx is None:
            return None
        return self.types[idx]

    def pointee(self, t):
        if t is None or "pointee" not in t:
            return None
        return self.types[t["pointee"]]

    def param_index(self, d):
        for i, p in enumerate(self.params):
            if p["d"] == d:
                return i
        return None

    def dead_ids(self):
        """ids of AST nodes under branches whose condition clang folds to a constant (e.g. `if (PRNH)` with
        `static const int PRNH = 0`): such code never executes and is ignored by call-graph and effect rules."""
        if getattr(self, "_dead", None) is None:
            dead = set()
            for n in self.nodes():
                if n["k"] == "IfStmt" and n.get("cond") is not None:
                    v = const_value(n["cond"])
                    if v is not None:
                        br = n.get("then") if v == 0 else n.get("else")
                        if br is not None:
                            for x in walk(br):
                                if "id" in x:
                                    dead.add(x["id"])
                elif n["k"] == "WhileStmt" and n.get("cond") is not None and const_value(n["cond"]) == 0:
                    for x in walk(n["body"]):
                        if "id" in x:
                            dead.add(x["id"])
            self._dead = dead
        return self._dead

    def live_nodes(self):
        dead = self.dead_ids()
        if not dead:
            yield from self.nodes()
            return
        for n in self.nodes():
            if n.get("id") not in dead:
                yield n

    def calls(self):
        for n in self.live_nodes():
            if n["k"] in ("CallExpr", "CXXMemberCallExpr", "CXXOperatorCallExpr", "CXXConstructExpr", "CXXTemporaryObjectExpr"):
                yield n

    @property
    def cfg(self):
        if self._cfg is None and self.raw.get("cfg"):
            self._cfg = CFG(self)
        return self._cfg


class CFG:
    """clang::CFG with element-level positions. A position is (block id, element index)."""

    def __init__(self, func):
        raw = func.raw["cfg"]
        self.func = func
        self.entry = raw["entry"]
        self.exit = raw["exit"]
        self.blocks = {b["id"]: b for b in raw["blocks"]}
        self.succ = {}
        self.pred = collections.defaultdict(list)
        self.dead_succ = {}
        for b in raw["blocks"]:
            ss, dead = [], []
            for s in b["s"]:
                if s is None:
                    continue
                if s >= 0:
                    ss.append(s)
                else:
                    dead.append(-s - 1)
            self.succ[b["id"]] = ss
            self.dead_succ[b["id"]] = dead
            for s in ss:
                self.pred[s].append(b["id"])
        self.pos = {}
        for b in raw["blocks"]:
            for i, e in enumerate(b["e"]):
                sid = e if isinstance(e, int) else e.get("s")
                if isinstance(sid, int) and sid not in self.pos:
                    self.pos[sid] = (b["id"], i)
        self._reach = None

    def raw_succ(self, bid):
        """Successor slots in clang order (None for missing, negative for pruned)."""
        return self.blocks[bid]["s"]

    def position(self, node):
        """Position of an AST node: its own CFG element or that of the nearest enclosing one."""
        n = node
        while n is not None:
            p = self.pos.get(n.get("id"))
            if p is not None:
                return p
            n = self.func.parent(n)
        return None

    def reachable_blocks(self):
        if self._reach is None:
            seen = {self.entry}
            st = [self.entry]
            while st:
                b = st.pop()
                for s in self.succ[b]:
                    if s not in seen:
                        seen.add(s)
                        st.append(s)
            self._reach = seen
        return self._reach

    def is_reachable(self, node):
        p = self.position(node)
        return p is not None and p[0] in self.reachable_blocks()

    def path_exists(self, start, targets, avoid=(), removed_edges=()):
        """Is there a path from just *after* position `start` (or from block entry if start is an int block id)
        to any position/block in `targets` that touches no position in `avoid`?
        targets / avoid: iterables of positions (bid, idx) or block ids (int = block entry)."""
        avoid_by_block = collections.defaultdict(list)
        for a in avoid:
            if isinstance(a, int):
                avoid_by_block[a].append(-1)
            else:
                avoid_by_block[a[0]].append(a[1])
        tgt_by_block = collections.defaultdict(list)
        for t in targets:
            if isinstance(t, int):
                tgt_by_block[t].append(-1)
            else:
                tgt_by_block[t[0]].append(t[1])
        removed = set(removed_edges)

        def scan(bid, frm):
            """Scan block from index frm. Returns 'hit', 'blocked' or 'through'."""
            evs = [(i, "a") for i in avoid_by_block.get(bid, []) if i >= frm] + \
                  [(i, "t") for i in tgt_by_block.get(bid, []) if i >= frm]
            if not evs:
                return "through"
            evs.sort()
            return "hit" if evs[0][1] == "t" else "blocked"

        if isinstance(start, int):
            work = [(start, -1, True)]
        else:
            work = [(start[0], start[1] + 1, False)]
        seen = set()
        while work:
            bid, frm, mark = work.pop()
            if mark:
                if bid in seen:
                    continue
                seen.add(bid)
            r = scan(bid, frm)
            if r == "hit":
                return True
            if r == "blocked":
                continue
            for s in self.succ[bid]:
                if (bid, s) in removed:
                    continue
                if s not in seen:
                    work.append((s, -1, True))
        return False

    def dominates(self, a, b):
        """Position a dominates position b: every path entry->b passes a."""
        if a == b:
            return True
        return not self.path_exists(self.entry, [b], avoid=[a])

    def postdominates(self, a, b):
        """Every path from b to exit passes a."""
        return not self.path_exists(b, [self.exit], avoid=[a])

    def branch_conditions(self):
        """[(block id, cond node id, [succ_true, succ_false])] for two-way branches."""
        out = []
        for bid, b in self.blocks.items():
            if "cond" in b and len(b["s"]) == 2:
                out.append((bid, b["cond"], b["s"]))
        return out

    def ast_guards(self, node):
        """Conditions implied by syntactic nesting: inside the then/else branch of an if, a loop body, a ?: arm."""
        f = self.func
        out = []
        child = node
        for a in f.ancestors(node):
            k = a["k"]
            if k == "IfStmt" and a.get("cond") is not None:
                if a.get("then") is child:
                    out.extend(implied_atoms(a["cond"], True))
                elif a.get("else") is child:
                    out.extend(implied_atoms(a["cond"], False))
            elif k in ("WhileStmt", "ForStmt") and a.get("cond") is not None and a.get("body") is child:
                out.extend(implied_atoms(a["cond"], True))
            elif k == "ConditionalOperator":
                if a.get("then") is child:
                    out.extend(implied_atoms(a["cond"], True))
                elif a.get("else") is child:
                    out.extend(implied_atoms(a["cond"], False))
            child = a
        return out

    def guards(self, node):
        """All branch outcomes known to hold when node executes: CFG edge dominators plus syntactic nesting."""
        pos = self.position(node)
        res = list(self.dominating_conditions(pos)) if pos is not None else []
        have = {(id(c), p) for c, p in res}
        for c, p in self.ast_guards(node):
            if (id(c), p) not in have:
                res.append((c, p))
        return res

    def dominating_conditions(self, pos):
        """Branch outcomes that hold on every path from entry to pos.
        Returns [(cond node, polarity)]: the edge taken when cond evaluates to `polarity` is an
        edge-dominator of pos."""
        res = []
        reach = self.reachable_blocks()
        for bid, cid, ss in self.branch_conditions():
            if bid not in reach:
                continue
            t, f = ss
            if t == f:
                continue
            for pol, taken in ((True, t), (False, f)):
                if taken is None or taken < 0:
                    continue
                if not self.path_exists(self.entry, [pos], removed_edges=[(bid, taken)]):
                    res.extend(implied_atoms(self.func.node(cid), pol))
        return res


def implied_atoms(cond, pol):
    """Atomic conditions implied by `cond` evaluating to `pol`:  (A && B)=true -> A, B true;  (A || B)=false -> A, B false;
    !A flips.  Returns [(node, polarity)]."""
    c = strip(cond) if cond is not None else None
    if c is None:
        return []
    if c["k"] == "BinaryOperator" and c["op"] == "&&":
        if pol:
            return implied_atoms(c["lhs"], True) + implied_atoms(c["rhs"], True)
        return [(c, pol)]
    if c["k"] == "BinaryOperator" and c["op"] == "||":
        if not pol:
            return implied_atoms(c["lhs"], False) + implied_atoms(c["rhs"], False)
        return [(c, pol)]
    if c["k"] == "UnaryOperator" and c["op"] == "!":
        return implied_atoms(c["sub"], not pol)
    return [(c, pol)]


class DB:
    def __init__(self, raw=None, repo=None):
        if raw is None:
            raw = factsdb.load_raw(repo or factsdb.REPO)
        self.meta = raw["meta"]
        self.funcs = {k: Func(v, self) for k, v in raw["functions"].items()}
        self.records = raw["records"]
        self.globals = raw["globals"]
        self.by_qn = collections.defaultdict(list)
        for f in self.funcs.values():
            self.by_qn[f.qn].append(f)
        self.lambdas_of = collections.defaultdict(list)
        for f in self.funcs.values():
            if f.parent_id:
                self.lambdas_of[f.parent_id].append(f)
        self.subs = collections.defaultdict(set)
        for qn, r in self.records.items():
            for b in r["bases"]:
                self.subs[b].add(qn)
        self.overriders = collections.defaultdict(set)  # method id -> ids of direct overriders
        self.method_decl = {}
        for qn, r in self.records.items():
            for m in r["methods"]:
                self.method_decl[m["id"]] = (qn, m)
                for o in m["overrides"]:
                    self.overriders[o].add(m["id"])

    # ---- lookup -----------------------------------------------------------
    def fn(self, qn, required=True, nparams=None):
        c = self.by_qn.get(qn, [])
        if nparams is not None:
            c = [f for f in c if len(f.params) == nparams]
        if not c:
            if required:
                raise AnalysisBroken("anchor function %s not found in /repo" % qn)
            return None
        if len(c) > 1:
            raise AnalysisBroken("anchor function %s is ambiguous (%d overloads); rule must disambiguate" % (qn, len(c)))
        return c[0]

    def fns(self, qn):
        return list(self.by_qn.get(qn, []))

    def methods_of(self, rec, name=None):
        out = []
        for f in self.funcs.values():
            if f.rec == rec and not f.is_lambda and (name is None or f.name == name):
                out.append(f)
        return sorted(out, key=lambda f: (f.file, f.line))

    def record(self, qn, required=True):
        r = self.records.get(qn)
        if r is None and required:
            raise AnalysisBroken("anchor record %s not found in /repo" % qn)
        return r

    def all_subclasses(self, rec):
        out, st = set(), [rec]
        while st:
            r = st.pop()
            for s in self.subs.get(r, ()):
                if s not in out:
                    out.add(s)
                    st.append(s)
        return out

    def all_bases(self, rec):
        out, st = [], [rec]
        while st:
            r = st.pop()
            rr = self.records.get(r)
            if not rr:
                continue
            for b in rr["bases"]:
                if b not in out:
                    out.append(b)
                    st.append(b)
        return out

    def is_subclass(self, rec, base):
        return rec == base or base in self.all_bases(rec)

    def field(self, rec, name):
        """Field declaration (searching bases)."""
        for r in [rec] + self.all_bases(rec):
            rr = self.records.get(r)
            if not rr:
                continue
            for f in rr["fields"]:
                if f["n"] == name:
                    return r, f, rr["_types"]
        return None

    def all_overriders(self, mid):
        out, st = set(), [mid]
        while st:
            m = st.pop()
            for o in self.overriders.get(m, ()):
                if o not in out:
                    out.add(o)
                    st.append(o)
        return out

    def resolve_virtual(self, cls, mid, _memo={}):
        """The final overrider of virtual method `mid` for an object of dynamic class `cls` (None if cls is unrelated)."""
        key = (id(self), cls, mid)
        if key in _memo:
            return _memo[key]
        family = {mid} | self.all_overriders(mid)
        res = None
        order = [cls] + self.all_bases(cls)
        for r in order:
            rr = self.records.get(r)
            if not rr:
                continue
            hit = [m["id"] for m in rr["methods"] if m["id"] in family]
            if hit:
                res = hit[0]
                break
        _memo[key] = res
        return res

    def find_method(self, rec, name, nparams=None):
        """Resolve a method by name on rec or the nearest base defining it (declaration lookup)."""
        for r in [rec] + self.all_bases(rec):
            rr = self.records.get(r)
            if not rr:
                continue
            ms = [m for m in rr["methods"] if m["n"] == name and (nparams is None or m["nparams"] == nparams)]
            if ms:
                return [m["id"] for m in ms]
        return []

    # ---- call resolution --------------------------------------------------
    def call_targets(self, func, call, refine=None):
        """Function ids a call node may invoke (CHA for virtual calls)."""
        fid = call.get("f")
        if fid is None:
            return []
        if call.get("fvirt") and call.get("member") and not call.get("qualified"):
            tg = {fid} | self.all_overriders(fid)
            if refine:
                r = refine(func, call, tg)
                if r is not None:
                    tg = r
            return sorted(tg)
        return [fid]

    def callees(self, func, refine=None, with_dtors=True):
        out = []
        for n in func.live_nodes():
            k = n["k"]
            if k in ("CallExpr", "CXXMemberCallExpr", "CXXOperatorCallExpr", "CXXConstructExpr", "CXXTemporaryObjectExpr"):
                for t in self.call_targets(func, n, refine):
                    out.append((n, t))
            elif k == "CXXDeleteExpr" and with_dtors:
                t = func.type(n["sub"])
                pt = func.pointee(t) if t else None
                if pt and pt.get("rec"):
                    for d in self.dtor_targets(pt["rec"]):
                        out.append((n, d))
            elif k == "LambdaExpr":
                out.append((n, n["lambda"]))
        if with_dtors and func.cfg:
            for b in func.cfg.blocks.values():
                for e in b["e"]:
                    if isinstance(e, dict) and "dtor" in e:
                        t = func.types[e["t"]]
                        if t.get("rec"):
                            for d in self.dtor_targets(t["rec"], virtual=False):
                                out.append((None, d))
        return out

    def dtor_targets(self, rec, virtual=True):
        out = []
        recs = [rec] + (sorted(self.all_subclasses(rec)) if virtual else [])
        for r in recs:
            for f in self.funcs.values():
                if f.rec == r and f.is_dtor:
                    out.append(f.id)
        return out

    def closure(self, roots, refine=None, stop=None):
        """Transitive callee closure over functions with bodies under /repo. Returns {fid: (caller fid, call node)}."""
        seen = {}
        work = []
        for r in roots:
            rid = r.id if isinstance(r, Func) else r
            if rid in self.funcs and rid not in seen:
                seen[rid] = (None, None)
                work.append(rid)
        while work:
            fid = work.pop()
            f = self.funcs[fid]
            if stop and stop(f):
                continue
            for n, t in self.callees(f, refine):
                if t in self.funcs and t not in seen:
                    seen[t] = (fid, n)
                    work.append(t)
        return seen

    def rta(self, roots, inst0=()):
        """Rapid type analysis: (reachable function ids, instantiated records). Virtual calls are resolved
        against the classes instantiated in the reachable part of the program only."""
        reach, inst = {}, set(inst0)
        work = []
        pending = []   # (caller fid, node, candidate ids) virtual calls waiting for instantiations

        def add(fid, caller, node):
            if fid in self.funcs and fid not in reach:
                reach[fid] = (caller, node)
                work.append(fid)

        def vtargets(mid):
            """Final overriders of virtual method mid over the classes instantiated so far."""
            drec = self.method_decl.get(mid, (None,))[0]
            out = set()
            for i in inst:
                if i not in self.records:
                    continue
                if drec is not None and not self.is_subclass(i, drec):
                    continue
                t = self.resolve_virtual(i, mid)
                if t is not None:
                    out.add(t)
            return out

        for r in roots:
            rid = r.id if isinstance(r, Func) else r
            add(rid, None, None)
            if rid in self.funcs and self.funcs[rid].is_ctor and self.funcs[rid].rec:
                inst.add(self.funcs[rid].rec)
        while work or pending:
            while work:
                fid = work.pop()
                f = self.funcs[fid]
                base_inits = set()
                for ini in f.raw.get("inits", []):
                    if (ini.get("base") or ini.get("delegating")) and isinstance(ini.get("init"), dict):
                        base_inits.add(strip(ini["init"]).get("id"))
                for n in f.live_nodes():
                    k = n["k"]
                    if k in ("CXXConstructExpr", "CXXTemporaryObjectExpr"):
                        if n.get("rec") and n.get("id") not in base_inits:
                            inst.add(n["rec"])
                        if n.get("f"):
                            add(n["f"], fid, n)
                    elif k in ("CallExpr", "CXXMemberCallExpr", "CXXOperatorCallExpr"):
                        mid = n.get("f")
                        if mid is None:
                            continue
                        if n.get("fvirt") and n.get("member") and not n.get("qualified"):
                            pending.append((fid, n, mid))
                        else:
                            add(mid, fid, n)
                        # std::make_unique<T>(...) etc. instantiate T
                        if callee_name(n) in ("make_unique", "make_shared") and n.get("targs"):
                            ta = n["targs"][0]
                            if "t" in ta and f.types[ta["t"]].get("rec"):
                                rec = f.types[ta["t"]]["rec"]
                                inst.add(rec)
                                for c in self.funcs.values():
                                    if c.rec == rec and c.is_ctor:
                                        add(c.id, fid, n)
                    elif k == "CXXDeleteExpr":
                        t = f.type(n["sub"])
                        pt = f.pointee(t) if t else None
                        if pt and pt.get("rec"):
                            for d in self.dtor_targets(pt["rec"]):
                                drec = self.funcs[d].rec
                                if drec == pt["rec"] or drec in inst:
                                    add(d, fid, n)
                    elif k == "LambdaExpr":
                        add(n["lambda"], fid, n)
                    elif k == "CXXNewExpr":
                        at = f.types[n["alloct"]]
                        if at.get("rec"):
                            inst.add(at["rec"])
                if f.cfg:
                    for b in f.cfg.blocks.values():
                        for e in b["e"]:
                            if isinstance(e, dict) and "dtor" in e:
                                t = f.types[e["t"]]
                                if t.get("rec"):
                                    for d in self.dtor_targets(t["rec"], virtual=False):
                                        add(d, fid, None)
            progressed = False
            for caller, n, mid in pending:
                for c in vtargets(mid):
                    if c not in reach and c in self.funcs:
                        add(c, caller, n)
                        progressed = True
            if not work:
                break
        return reach, inst

    def chain(self, closure, fid):
        """Call chain root -> fid from a closure() result."""
        out = []
        while fid is not None:
            caller, node = closure[fid]
            f = self.funcs[fid]
            out.append(f.qn)
            fid = caller
        return list(reversed(out))


# ---- access paths ----------------------------------------------------------
def access_path(func, n):
    """Symbolic access path of an lvalue/rvalue expression:
    ('this',), ('this','f'), ('this','f','g'), ('param',i), ('param',i,'f'), ('local',d), ('global',usr)...
    '[]' and '*' are path steps. None if not a path."""
    n = strip(n)
    if not isinstance(n, dict):
        return None
    k = n["k"]
    if k == "CXXThisExpr":
        return ("this",)
    if k == "DeclRefExpr":
        dk = n.get("dk")
        if dk == "param":
            return ("param", n["pi"])
        if dk == "local":
            return ("local", n["d"])
        if dk in ("global", "staticlocal", "staticmember"):
            return ("global", n["u"])
        return None
    if k == "MemberExpr":
        if n.get("mk") == "staticmember":
            return ("global", n["u"])
        if n.get("mk") != "field":
            return None
        b = access_path(func, n["base"])
        if b is None:
            return None
        return b + (n["n"],)
    if k == "ArraySubscriptExpr":
        b = access_path(func, n["base"])
        if b is None:
            return None
        return b + ("[]",)
    if k == "UnaryOperator" and n["op"] == "*":
        b = access_path(func, n["sub"])
        if b is None:
            return None
        return b + ("[]",)
    if k == "UnaryOperator" and n["op"] == "&":
        b = access_path(func, n["sub"])
        if b is None:
            return None
        return b + ("&",)
    if k == "BinaryOperator" and n["op"] in ("+", "-"):
        # pointer arithmetic: path of the pointer operand
        lt = func.type(n["lhs"])
        if lt and lt["kind"] in ("ptr", "array"):
            return access_path(func, n["lhs"])
        rt = func.type(n["rhs"])
        if rt and rt["kind"] in ("ptr", "array") and n["op"] == "+":
            return access_path(func, n["rhs"])
    return None


def fmt_path(func, p):
    if p is None:
        return "?"
    out = []
    if p[0] == "this":
        out.append("this")
        rest = p[1:]
    elif p[0] == "param":
        nm = func.params[p[1]]["n"] if p[1] < len(func.params) else "p%d" % p[1]
        out.append(nm or "p%d" % p[1])
        rest = p[2:]
    elif p[0] == "local":
        out.append("local#%d" % p[1])
        rest = p[2:]
    else:
        out.append(str(p[1]))
        rest = p[2:]
    for s in rest:
        if s == "[]":
            out[-1] += "[]"
        elif s == "&":
            out[-1] = "&" + out[-1]
        else:
            out.append(s)
    return "->".join(out)


def is_assignment(n):
    return n["k"] in ("BinaryOperator", "CompoundAssignOperator") and n["op"] in (
        "=", "+=", "-=", "*=", "/=", "%=", "<<=", ">>=", "&=", "|=", "^=")


def written_lvalues(func):
    """All (lvalue node, writing node) pairs in a function: assignments, ++/--."""
    for n in func.nodes():
        if is_assignment(n):
            yield n["lhs"], n
        elif n["k"] == "UnaryOperator" and n["op"] in ("++", "--"):
            yield n["sub"], n


def single_def_init(f, d):
    """Initialiser of local d if that is its only definition (declared with an initialiser, never assigned / incremented,
    address never taken), else None."""
    init = None
    for n in f.live_nodes():
        if n["k"] == "DeclStmt":
            for v in n["decls"]:
                if v.get("d") == d:
                    init = v.get("init")
        elif is_assignment(n):
            l = strip(n["lhs"])
            if l["k"] == "DeclRefExpr" and l.get("d") == d and l.get("dk") == "local":
                return None
        elif n["k"] == "UnaryOperator" and n["op"] in ("++", "--", "&"):
            l = strip(n["sub"])
            if l["k"] == "DeclRefExpr" and l.get("d") == d and l.get("dk") == "local":
                return None
    return init


def resolved_path(f, n, depth=0):
    """access_path(n), looking through locals that are mere single-definition copies of another location
    (`const size_t T = hash->tsize; ... % T`  ->  path of hash->tsize)."""
    p = access_path(f, n)
    if p is not None and p[0] == "local" and len(p) == 2 and depth < 5:
        ini = single_def_init(f, p[1])
        if ini is not None:
            q = resolved_path(f, ini, depth + 1)
            if q is not None:
                return q
    return p



def expand_atoms(db, atoms, depth=0):
    """Look through boolean helper functions: an atom that is a call (on `this` or free) to a function of the code base whose
    body is `return <expr>;` is replaced by the atoms its outcome implies."""
    out = []
    for c, pol in atoms:
        sc = strip(c) if c is not None else None
        callee = None
        if sc is not None and sc["k"] in ("CallExpr", "CXXMemberCallExpr") and depth < 4:
            obj = sc.get("obj")
            if obj is None or strip(obj)["k"] == "CXXThisExpr":
                callee = db.funcs.get(sc.get("f"))
        if callee is not None and callee.body is not None:
            body = callee.body.get("c", [])
            if len(body) == 1 and body[0]["k"] == "ReturnStmt" and body[0].get("value") is not None and not callee.params:
                inner = implied_atoms(body[0]["value"], pol)
                if not (len(inner) == 1 and inner[0][0] is strip(body[0]["value"]) and strip(body[0]["value"])["k"] not in ("BinaryOperator", "UnaryOperator")):
                    out.append((c, pol))
                    out.extend(expand_atoms(db, inner, depth + 1))
                    continue
        out.append((c, pol))
    return out


def lambda_node_of(db, f, expr, depth=0):
    """The LambdaExpr node an expression denotes: a lambda expression (possibly wrapped in std::function / move / casts), or a
    local variable whose only definition is one."""
    if expr is None or depth > 4:
        return None
    s = strip(expr)
    for x in walk(s):
        if x["k"] == "LambdaExpr":
            return x
    for x in walk(s):
        if x["k"] == "DeclRefExpr" and x.get("dk") == "local":
            ini = single_def_init(f, x["d"])
            if ini is not None:
                r = lambda_node_of(db, f, ini, depth + 1)
                if r is not None:
                    return r
    return None


def lambda_of(db, f, expr, depth=0):
    n = lambda_node_of(db, f, expr, depth)
    return db.funcs.get(n["lambda"]) if n is not None else None
