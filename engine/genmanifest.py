#!/usr/bin/env python3
"""Writes MANIFEST.json from props.PROPS (claimed) and props.NOT_APPLICABLE."""
import json, os, sys
HERE = os.path.dirname(os.path.abspath(__file__))
sys.path.insert(0, HERE)
import props
VERIF = os.path.dirname(HERE)
checks = []
for pid in sorted(props.PROPS):
    s = props.PROPS[pid]
    checks.append({
        "property_id": pid,
        "quick_cmd": "python3 engine/check.py %s --tier quick" % pid,
        "thorough_cmd": "python3 engine/check.py %s --tier thorough" % pid,
        "evidence_file": "/verif/evidence/%s.json" % pid,
        "replay_cmd_template": "python3 engine/check.py %s --replay {path}" % pid,
        "engine": "csdfacts+rules",
        "level_claimed": {"category": "other",
                          "text": s.get("level_text", "Static analysis (custom libTooling fact extractor + rule library) deciding the structural clauses listed in the evidence file for every function, path and sibling implementation in /repo; it does not decide the value-level behaviour."),
                          "design_ref": "DESIGN.md section 4, " + pid},
        "level_note": "; ".join(s["assumptions"]) + ". Not decided: " + "; ".join(s["not_decided"]),
        "technique": "static analysis: " + ", ".join(s["rules"]) + " (" + s.get("technique", "AST/CFG/call-graph rules over clang libTooling facts") + ")",
    })
m = {
    "version": 1,
    "setup_cmd": "mkdir -p bin && clang++ $(llvm-config-14 --cxxflags) -fno-rtti engine/csdfacts.cc -o bin/csdfacts /usr/lib/llvm-14/lib/libclang-cpp.so.14 /usr/lib/llvm-14/lib/libLLVM-14.so",
    "hooks": {"guard": "LIBCSD_VERIF", "enable": "none needed: the checks parse /repo's unmodified sources; no hook code exists",
              "baseline_off_cmd": "cmake -G Ninja -S /repo -B /repo/_build && cmake --build /repo/_build && ctest --test-dir /repo/_build -j8 --timeout 900",
              "source_commits": [], "add_only": True},
    "engines": [{"name": "csdfacts+rules", "path": "engine/", "serves_properties": sorted(props.PROPS),
                 "kind_free_text": "clang-14 libTooling extractor (resolved AST + clang::CFG per function, records, globals) and a Python rule library (dominance, must-pass-through, call graph with CHA, access paths, expression canonicaliser)"}],
    "checks": checks,
    "not_applicable": [{"property_id": k, "reason": v} for k, v in sorted(props.NOT_APPLICABLE.items())],
    "notes": "Technique family: static analysis only. exit 2 from a check means the analysis lost its anchors (never reported as pass).",
}
json.dump(m, open(os.path.join(VERIF, "MANIFEST.json"), "w"), indent=1)
print("MANIFEST.json: %d checks, %d not applicable" % (len(checks), len(m["not_applicable"])))
