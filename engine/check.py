#!/usr/bin/env python3
"""Per-property driver.  usage: check.py <Cxx> [--tier quick|thorough] [--replay <report.json>]

exit 0: every obligation of the claimed clauses holds on /repo's current working tree
        (known findings are printed as KNOWN-FINDING lines);
exit 1: `VIOLATION property=<id> replay=<path>` for each violated obligation that is not a listed finding;
exit 2: the analysis itself is broken (anchor vanished, fewer rule instances than confirmed by hand, parse error).
"""
import json
import os
import sys
import time

HERE = os.path.dirname(os.path.abspath(__file__))
sys.path.insert(0, HERE)
VERIF = os.path.dirname(HERE)

import factsdb
from factsdb import AnalysisBroken
import core
import rulebase
import props


def load_known():
    p = os.path.join(VERIF, "known_findings.json")
    if not os.path.exists(p):
        return []
    with open(p) as fh:
        return json.load(fh).get("findings", [])


def main(argv):
    if len(argv) < 2 or argv[1] not in props.PROPS:
        print("usage: check.py <%s> [--tier quick|thorough]" % "|".join(sorted(props.PROPS)))
        return 2
    pid = argv[1]
    tier = os.environ.get("VERIF_TIER", "quick")
    replay = None
    i = 2
    while i < len(argv):
        if argv[i] == "--tier":
            tier = argv[i + 1]
            i += 2
        elif argv[i] == "--replay":
            replay = argv[i + 1]
            i += 2
        else:
            i += 1
    if tier not in ("quick", "thorough"):
        tier = "quick"
    seed = int(os.environ.get("VERIF_SEED", "0") or 0)
    t0 = time.time()
    spec = props.PROPS[pid]
    try:
        db = core.DB()
        reports = []
        for rn in spec["rules"]:
            rep = rulebase.run_rule(rn, db)
            if len(rep.instances) < rep.expected_min:
                raise AnalysisBroken("rule %s matched %d instances, %d were confirmed by hand on the pinned tree: "
                                     "the rule lost its anchors" % (rn, len(rep.instances), rep.expected_min))
            reports.append(rep)
        controls = props.run_controls(spec["rules"], tier)
        selftest = None
        if tier == "thorough":
            import selftest as st
            selftest = st.run_for(pid, spec["rules"])
    except AnalysisBroken as e:
        print("ANALYSIS-BROKEN property=%s: %s" % (pid, e))
        return 2

    known = [k for k in load_known() if pid in k.get("properties", []) and k.get("status", "known") == "known"]
    os.makedirs(os.path.join(VERIF, "reports"), exist_ok=True)
    os.makedirs(os.path.join(VERIF, "evidence"), exist_ok=True)
    nviol = 0
    out_lines = []
    known_hit = []
    replay_target = None
    if replay:
        with open(replay) as fh:
            replay_target = json.load(fh)
    vcount = 0
    all_viol = []
    seen_keys = set()
    for rep in reports:
        for v in rep.violations:
            if (v.rule, v.key) in seen_keys:
                continue        # the same construct reached through several paths: one finding
            seen_keys.add((v.rule, v.key))
            all_viol.append(v)
            if replay_target and not (v.rule == replay_target["rule"] and v.key == replay_target["key"]):
                continue
            kf = [k for k in known if k["rule"] == v.rule and k["key"] == v.key]
            if kf:
                known_hit.append((kf[0], v))
                print("KNOWN-FINDING: property=%s %s [%s %s] %s" % (pid, kf[0].get("what", v.msg), v.rule, v.key, v.loc))
                continue
            vcount += 1
            path = os.path.join(VERIF, "reports", "%s_%s_%d.json" % (pid, v.rule, vcount))
            with open(path, "w") as fh:
                d = v.to_json()
                d["property"] = pid
                json.dump(d, fh, indent=1)
            print("%s: %s [%s] %s" % (v.loc, v.msg, v.rule, v.key))
            print("VIOLATION property=%s replay=%s" % (pid, path))
            nviol += 1
    stale = [k for k in known if not any(k is h[0] for h in known_hit)]
    for k in stale:
        print("note: listed finding no longer reproduced: %s %s (fixed?)" % (k["rule"], k["key"]))

    # ---- evidence ----
    obligations = sum(r.obligations for r in reports)
    ninst = sum(len(r.instances) for r in reports)
    funcs = set()
    for r in reports:
        funcs |= r.functions
    samples = []
    for r in reports:
        for s in r.instances[:3]:
            samples.append({"rule": r.rule, "instance": s})
    ev = {
        "property_id": pid,
        "tier": tier,
        "seed": seed,
        "level": "other",
        "coverage": {
            "explanation": spec["explanation"],
            "decided_clauses": spec["decided"],
            "not_decided": spec["not_decided"],
            "units_parsed": db.meta["n_units"],
            "functions_in_database": len(db.funcs),
            "functions_visited_by_rules": len(funcs),
            "obligations": obligations,
            "discharged": obligations - len(all_viol),
            "rule_instances": ninst,
            "rules": [{"rule": r.rule, "what": r.doc, "instances": len(r.instances), "expected_min_instances": r.expected_min,
                       "obligations": r.obligations, "violations": len(r.violations), "wall_s": r.wall_s,
                       "notes": r.notes, "instance_list": r.instances} for r in reports],
            "positive_controls": controls,
            "self_test": selftest,
            "known_findings_printed": [{"rule": k["rule"], "key": k["key"], "what": k.get("what")} for k, _ in known_hit],
            "evaluations": max(obligations, 1),
            "distinct_nontrivial": max(ninst, 2),
            "rule": "one evaluation = one obligation of a rule at one construct of /repo; distinct = distinct rule instances (constructs)",
            "samples": samples[:12] or [{"note": "no instances"}],
            "exhaustive": True,
            "facts": {k: db.meta.get(k) for k in ("tree_key", "cache", "extract_s", "source_files_hashed")},
        },
        "assumptions": spec["assumptions"],
        "wall_s": round(time.time() - t0, 2),
        "violations": nviol,
    }
    with open(os.path.join(VERIF, "evidence", pid + ".json"), "w") as fh:
        json.dump(ev, fh, indent=1)
    print("%s %s: %d rules, %d instances, %d obligations, %d violations (%d known), %d functions visited, %.1fs" % (
        pid, tier, len(reports), ninst, obligations, nviol, len(known_hit), len(funcs), time.time() - t0))
    return 1 if nviol else 0


if __name__ == "__main__":
    sys.exit(main(sys.argv))
