// csdfacts: libTooling fact extractor for the libCSD static checks.
//
// For every translation unit given on the command line it writes one JSON file
// (<outdir>/<n>.json) holding, for every function *defined* under --root:
//   * a simplified, fully resolved AST of the body (callees by USR, member
//     accesses by record+field, local declarations by stable per-function ids,
//     constant-folded integer values where clang can fold them),
//   * the clang::CFG of the body (all sub-expressions as elements, implicit
//     destructors on) referencing the AST node ids,
// plus every record (bases, fields, methods, layout/padding), every variable
// with static storage, and a per-unit type table.
//
// The extractor has no rules in it: all verdicts are computed by the Python
// rule library from these facts.
#include "clang/AST/ASTConsumer.h"
#include "clang/AST/ASTContext.h"
#include "clang/AST/Decl.h"
#include "clang/AST/DeclCXX.h"
#include "clang/AST/DeclTemplate.h"
#include "clang/AST/Expr.h"
#include "clang/AST/ExprCXX.h"
#include "clang/AST/RecordLayout.h"
#include "clang/AST/RecursiveASTVisitor.h"
#include "clang/AST/Stmt.h"
#include "clang/AST/StmtCXX.h"
#include "clang/Analysis/CFG.h"
#include "clang/Basic/TargetInfo.h"
#include "clang/Frontend/CompilerInstance.h"
#include "clang/Frontend/FrontendAction.h"
#include "clang/Index/USRGeneration.h"
#include "clang/Lex/Lexer.h"
#include "clang/Tooling/CommonOptionsParser.h"
#include "clang/Tooling/Tooling.h"
#include "llvm/Support/CommandLine.h"
#include "llvm/Support/FileSystem.h"
#include "llvm/Support/JSON.h"
#include "llvm/Support/Path.h"
#include "llvm/Support/raw_ostream.h"

#include <map>
#include <set>
#include <string>
#include <vector>

using namespace clang;
using namespace clang::tooling;
namespace json = llvm::json;

static llvm::cl::OptionCategory Cat("csdfacts options");
static llvm::cl::opt<std::string> OutDir("out", llvm::cl::desc("output directory"),
                                         llvm::cl::Required, llvm::cl::cat(Cat));
static llvm::cl::opt<std::string> Root("root", llvm::cl::desc("source root; only declarations under it are emitted"),
                                       llvm::cl::Required, llvm::cl::cat(Cat));
static llvm::cl::opt<std::string> Tag("tag", llvm::cl::desc("file name prefix for outputs"),
                                      llvm::cl::init("u"), llvm::cl::cat(Cat));

namespace {

std::set<std::string> SeenFunctions;  // per process: header functions emitted once
std::set<std::string> SeenRecords;
std::set<std::string> SeenGlobals;
unsigned UnitCounter = 0;

class Emitter {
public:
  Emitter(ASTContext &Ctx, json::OStream &J) : Ctx(Ctx), SM(Ctx.getSourceManager()), J(J) {}

  ASTContext &Ctx;
  SourceManager &SM;
  json::OStream &J;

  // ---- type table ---------------------------------------------------------
  std::map<const Type *, unsigned> TypeIdx;  // keyed on canonical type ptr + quals folded into string map
  std::map<std::string, unsigned> TypeByStr;
  struct TypeEnt {
    std::string s;
    long long bits;
    std::string kind;
    int pointee;
    std::string rec;
    bool isConst;
  };
  std::vector<TypeEnt> Types;

  std::string recName(const RecordDecl *RD) {
    if (!RD) return "";
    if (!RD->getIdentifier()) {
      // typedef struct { ... } Name;
      if (const TypedefNameDecl *TD = RD->getTypedefNameForAnonDecl()) return TD->getQualifiedNameAsString();
    }
    return RD->getQualifiedNameAsString();
  }

  unsigned typeId(QualType QT) {
    if (QT.isNull()) return typeIdStr("<null>", -1, "other", -1, "", false);
    QualType C = QT.getCanonicalType();
    PrintingPolicy PP(Ctx.getLangOpts());
    PP.SuppressTagKeyword = true;
    std::string S = C.getAsString(PP);
    auto It = TypeByStr.find(S);
    if (It != TypeByStr.end()) return It->second;
    long long bits = -1;
    const Type *T = C.getTypePtr();
    if (!T->isDependentType() && !T->isIncompleteType() && !T->isFunctionType() && !T->isVoidType() &&
        !T->isUndeducedType() && !T->isPlaceholderType())
      bits = (long long)Ctx.getTypeSize(C);
    std::string kind = "other";
    int pointee = -1;
    std::string rec;
    if (T->isBooleanType()) kind = "bool";
    else if (T->isEnumeralType()) kind = "enum";
    else if (T->isIntegerType()) kind = T->isUnsignedIntegerType() ? "uint" : "int";
    else if (T->isFloatingType()) kind = "float";
    else if (T->isPointerType()) { kind = "ptr"; }
    else if (T->isReferenceType()) { kind = "ref"; }
    else if (T->isRecordType()) { kind = "rec"; rec = recName(T->getAsRecordDecl()); }
    else if (T->isArrayType()) { kind = "array"; }
    else if (T->isVoidType()) kind = "void";
    // reserve the slot first (recursion on pointee)
    unsigned Id = Types.size();
    TypeByStr[S] = Id;
    Types.push_back({S, bits, kind, -1, rec, C.isConstQualified()});
    if (T->isPointerType() || T->isReferenceType()) {
      pointee = typeId(T->getPointeeType());
    } else if (const ArrayType *AT = Ctx.getAsArrayType(C)) {
      pointee = typeId(AT->getElementType());
    }
    Types[Id].pointee = pointee;
    return Id;
  }
  unsigned typeIdStr(const std::string &S, long long bits, const char *kind, int pointee,
                     const std::string &rec, bool isConst) {
    auto It = TypeByStr.find(S);
    if (It != TypeByStr.end()) return It->second;
    unsigned Id = Types.size();
    TypeByStr[S] = Id;
    Types.push_back({S, bits, kind, pointee, rec, isConst});
    return Id;
  }

  // ---- helpers ------------------------------------------------------------
  std::string usr(const Decl *D) {
    llvm::SmallString<128> Buf;
    if (index::generateUSRForDecl(D, Buf)) return "";
    return std::string(Buf.str());
  }

  std::string fileOf(SourceLocation L) {
    if (L.isInvalid()) return "";
    SourceLocation E = SM.getExpansionLoc(L);
    auto F = SM.getFilename(E);
    if (F.empty()) return "";
    llvm::SmallString<256> P(F);
    SM.getFileManager().makeAbsolutePath(P);
    llvm::sys::path::remove_dots(P, true);
    return std::string(P.str());
  }
  unsigned lineOf(SourceLocation L) {
    if (L.isInvalid()) return 0;
    return SM.getExpansionLineNumber(L);
  }
  bool underRoot(SourceLocation L) {
    std::string F = fileOf(L);
    if (F.empty()) return false;
    return llvm::StringRef(F).startswith(Root);
  }
  std::string relFile(SourceLocation L) {
    std::string F = fileOf(L);
    if (llvm::StringRef(F).startswith(Root)) {
      std::string R = F.substr(Root.size());
      while (!R.empty() && R[0] == '/') R.erase(0, 1);
      return R;
    }
    return F;
  }

  // function identity: USR, falling back on qualified name
  std::string funcId(const FunctionDecl *FD) {
    FD = FD->getCanonicalDecl();
    std::string U = usr(FD);
    if (U.empty()) U = FD->getQualifiedNameAsString();
    return U;
  }

  // ---- per outermost function state --------------------------------------
  std::map<const Decl *, unsigned> LocalIds;
  std::map<const Stmt *, unsigned> StmtIds;
  std::vector<const LambdaExpr *> PendingLambdas;
  std::string CurOuterId;
  std::map<const LambdaExpr *, std::string> LambdaIds;
  unsigned LambdaCounter = 0;

  unsigned localId(const Decl *D) {
    auto It = LocalIds.find(D);
    if (It != LocalIds.end()) return It->second;
    unsigned Id = LocalIds.size() + 1;
    LocalIds[D] = Id;
    return Id;
  }
  unsigned stmtId(const Stmt *S) {
    auto It = StmtIds.find(S);
    if (It != StmtIds.end()) return It->second;
    unsigned Id = StmtIds.size() + 1;
    StmtIds[S] = Id;
    return Id;
  }

  void emitTemplateArgs(const TemplateArgumentList *TAL) {
    if (!TAL) return;
    J.attributeArray("targs", [&] {
      for (const TemplateArgument &A : TAL->asArray()) {
        if (A.getKind() == TemplateArgument::Type) {
          J.object([&] {
            QualType T = A.getAsType();
            J.attribute("t", typeId(T));
            if (const RecordDecl *RD = T->getAsRecordDecl()) {
              if (RD->isCompleteDefinition() && !RD->isDependentType())
                J.attribute("pad", hasPadding(T));
            }
          });
        } else if (A.getKind() == TemplateArgument::Integral) {
          J.object([&] { J.attribute("v", A.getAsIntegral().getExtValue()); });
        } else {
          J.object([&] { J.attribute("other", true); });
        }
      }
    });
  }

  // does an object of type T contain padding bits? (recursive over fields)
  bool hasPadding(QualType T) {
    T = T.getCanonicalType();
    if (const ArrayType *AT = Ctx.getAsArrayType(T)) return hasPadding(AT->getElementType());
    const RecordDecl *RD = T->getAsRecordDecl();
    if (!RD) return false;
    RD = RD->getDefinition();
    if (!RD || RD->isInvalidDecl() || RD->isDependentType()) return false;
    const ASTRecordLayout &L = Ctx.getASTRecordLayout(RD);
    uint64_t total = Ctx.toBits(L.getSize());
    uint64_t used = 0;
    if (auto *CRD = dyn_cast<CXXRecordDecl>(RD)) {
      for (auto &B : CRD->bases()) {
        const RecordDecl *BD = B.getType()->getAsRecordDecl();
        if (BD && BD->getDefinition()) {
          if (hasPadding(B.getType())) return true;
          used += Ctx.toBits(Ctx.getASTRecordLayout(BD->getDefinition()).getSize());
        }
      }
      if (CRD->isDynamicClass()) used += Ctx.getTargetInfo().getPointerWidth(0);
    }
    for (const FieldDecl *F : RD->fields()) {
      if (F->isBitField()) { used += F->getBitWidthValue(Ctx); continue; }
      QualType FT = F->getType();
      if (FT->isIncompleteType() || FT->isDependentType()) continue;
      if (hasPadding(FT)) return true;
      used += Ctx.getTypeSize(FT);
    }
    if (RD->isUnion()) return false;
    return used < total;
  }

  void emitLoc(const Stmt *S) {
    SourceLocation B = S->getBeginLoc();
    J.attribute("l", lineOf(B));
    if (B.isMacroID()) {
      llvm::StringRef M = Lexer::getImmediateMacroName(B, SM, Ctx.getLangOpts());
      if (!M.empty()) J.attribute("macro", M);
    }
  }

  void emitDeclRefTarget(const ValueDecl *D) {
    if (auto *VD = dyn_cast<VarDecl>(D)) {
      if (auto *PD = dyn_cast<ParmVarDecl>(VD)) {
        J.attribute("dk", "param");
        J.attribute("d", localId(PD));
        J.attribute("pi", PD->getFunctionScopeIndex());
        J.attribute("n", PD->getName());
      } else if (VD->hasGlobalStorage()) {
        J.attribute("dk", VD->isStaticLocal() ? "staticlocal" : (VD->isStaticDataMember() ? "staticmember" : "global"));
        J.attribute("n", VD->getQualifiedNameAsString());
        J.attribute("u", usr(VD->getCanonicalDecl()));
        J.attribute("const", VD->getType().isConstQualified());
      } else {
        J.attribute("dk", "local");
        J.attribute("d", localId(VD));
        J.attribute("n", VD->getName());
      }
    } else if (auto *FD = dyn_cast<FunctionDecl>(D)) {
      J.attribute("dk", "func");
      J.attribute("n", FD->getQualifiedNameAsString());
      J.attribute("f", funcId(FD));
    } else if (auto *EC = dyn_cast<EnumConstantDecl>(D)) {
      J.attribute("dk", "enumconst");
      J.attribute("n", EC->getQualifiedNameAsString());
      J.attribute("v", EC->getInitVal().getExtValue());
    } else if (auto *FD2 = dyn_cast<FieldDecl>(D)) {
      J.attribute("dk", "field");
      J.attribute("n", FD2->getName());
      J.attribute("rec", recName(FD2->getParent()));
    } else if (auto *BD = dyn_cast<BindingDecl>(D)) {
      J.attribute("dk", "local");
      J.attribute("d", localId(BD));
      J.attribute("n", BD->getName());
    } else {
      J.attribute("dk", "other");
      J.attribute("n", D->getNameAsString());
    }
  }

  void emitCallee(const FunctionDecl *FD) {
    if (!FD) return;
    J.attribute("f", funcId(FD));
    J.attribute("fn", FD->getQualifiedNameAsString());
    if (auto *MD = dyn_cast<CXXMethodDecl>(FD)) {
      J.attribute("frec", recName(MD->getParent()));
      if (MD->isVirtual()) J.attribute("fvirt", true);
      if (MD->isStatic()) J.attribute("fstatic", true);
      if (MD->isConst()) J.attribute("fconst", true);
    }
    // parameters through which the callee may write: pointer / reference to non-const
    {
      bool any = false;
      for (const ParmVarDecl *P : FD->parameters()) {
        QualType T = P->getType();
        if ((T->isPointerType() || T->isReferenceType()) && !T->getPointeeType().isConstQualified() &&
            !T->getPointeeType()->isFunctionType()) { any = true; break; }
      }
      if (any) {
        J.attributeArray("pw", [&] {
          unsigned i = 0;
          for (const ParmVarDecl *P : FD->parameters()) {
            QualType T = P->getType();
            if ((T->isPointerType() || T->isReferenceType()) && !T->getPointeeType().isConstQualified() &&
                !T->getPointeeType()->isFunctionType())
              J.value((int64_t)i);
            ++i;
          }
        });
      }
      if (FD->isVariadic()) J.attribute("variadic", true);
    }
    if (const TemplateArgumentList *TAL = FD->getTemplateSpecializationArgs()) emitTemplateArgs(TAL);
    if (!underRoot(FD->getLocation())) J.attribute("ext", true);
  }

  void tryConst(const Expr *E) {
    if (E->isValueDependent() || E->isTypeDependent()) return;
    if (!E->getType()->isIntegralOrEnumerationType()) return;
    Expr::EvalResult R;
    if (E->EvaluateAsInt(R, Ctx, Expr::SE_NoSideEffects)) {
      if (R.Val.isInt()) {
        llvm::APSInt V = R.Val.getInt();
        if (V.isSigned()) J.attribute("cv", V.getExtValue());
        else if (V.getActiveBits() <= 63) J.attribute("cv", (int64_t)V.getZExtValue());
        else J.attribute("cvs", llvm::toString(V, 10));
      }
    }
  }

  void emitChildren(const Stmt *S) {
    J.attributeArray("c", [&] {
      for (const Stmt *C : S->children()) {
        if (C) emitStmt(C);
        else J.value(nullptr);
      }
    });
  }
  void emitNamed(const char *Name, const Stmt *S) {
    if (!S) return;
    J.attributeBegin(Name);
    emitStmt(S);
    J.attributeEnd();
  }

  void emitVarDecl(const VarDecl *VD) {
    J.object([&] {
      J.attribute("k", "VarDecl");
      J.attribute("n", VD->getName());
      J.attribute("t", typeId(VD->getType()));
      J.attribute("l", lineOf(VD->getLocation()));
      if (VD->hasGlobalStorage()) {
        J.attribute("static", true);
        J.attribute("u", usr(VD->getCanonicalDecl()));
        J.attribute("qn", VD->getQualifiedNameAsString());
      } else {
        J.attribute("d", localId(VD));
      }
      if (VD->hasInit()) {
        J.attribute("initstyle", VD->getInitStyle() == VarDecl::CInit ? "c" : (VD->getInitStyle() == VarDecl::CallInit ? "call" : "list"));
        emitNamed("init", VD->getInit());
      }
    });
  }

  void emitStmt(const Stmt *S) {
    J.object([&] {
      J.attribute("k", S->getStmtClassName());
      J.attribute("id", stmtId(S));
      emitLoc(S);
      if (auto *E = dyn_cast<Expr>(S)) {
        J.attribute("t", typeId(E->getType()));
        if (E->isLValue()) J.attribute("lv", true);
      }
      // ---- kind specific ----
      if (auto *DRE = dyn_cast<DeclRefExpr>(S)) {
        emitDeclRefTarget(DRE->getDecl());
        tryConst(DRE);
        return;
      }
      if (auto *ME = dyn_cast<MemberExpr>(S)) {
        const ValueDecl *MD = ME->getMemberDecl();
        J.attribute("arrow", ME->isArrow());
        J.attribute("n", MD->getName());
        if (auto *FD = dyn_cast<FieldDecl>(MD)) {
          J.attribute("mk", "field");
          J.attribute("rec", recName(FD->getParent()));
        } else if (auto *MF = dyn_cast<CXXMethodDecl>(MD)) {
          J.attribute("mk", "method");
          J.attribute("rec", recName(MF->getParent()));
          J.attribute("f", funcId(MF));
        } else if (auto *VD = dyn_cast<VarDecl>(MD)) {
          J.attribute("mk", "staticmember");
          J.attribute("qn", VD->getQualifiedNameAsString());
          J.attribute("u", usr(VD->getCanonicalDecl()));
          J.attribute("const", VD->getType().isConstQualified());
        } else {
          J.attribute("mk", "other");
        }
        tryConst(ME);
        emitNamed("base", ME->getBase());
        return;
      }
      if (isa<CXXThisExpr>(S)) {
        if (cast<CXXThisExpr>(S)->isImplicit()) J.attribute("implicit", true);
        return;
      }
      if (auto *IL = dyn_cast<IntegerLiteral>(S)) {
        llvm::APInt V = IL->getValue();
        if (V.getActiveBits() <= 63) J.attribute("v", (int64_t)V.getZExtValue());
        else J.attribute("vs", llvm::toString(V, 10, false));
        return;
      }
      if (auto *CL = dyn_cast<CharacterLiteral>(S)) { J.attribute("v", (int64_t)CL->getValue()); return; }
      if (auto *BL = dyn_cast<CXXBoolLiteralExpr>(S)) { J.attribute("v", BL->getValue() ? 1 : 0); return; }
      if (auto *FL = dyn_cast<FloatingLiteral>(S)) { J.attribute("v", FL->getValueAsApproximateDouble()); return; }
      if (auto *SL = dyn_cast<StringLiteral>(S)) {
        if (SL->isAscii()) J.attribute("v", SL->getString().substr(0, 80));
        return;
      }
      if (isa<CXXNullPtrLiteralExpr>(S) || isa<GNUNullExpr>(S)) { J.attribute("v", 0); return; }
      if (auto *UE = dyn_cast<UnaryExprOrTypeTraitExpr>(S)) {
        J.attribute("trait", UE->getKind() == UETT_SizeOf ? "sizeof" : "other");
        J.attribute("argt", typeId(UE->getTypeOfArgument()));
        tryConst(UE);
        return;
      }
      if (auto *BO = dyn_cast<BinaryOperator>(S)) {
        J.attribute("op", BO->getOpcodeStr());
        if (auto *CAO = dyn_cast<CompoundAssignOperator>(S)) J.attribute("compt", typeId(CAO->getComputationLHSType()));
        tryConst(BO);
        emitNamed("lhs", BO->getLHS());
        emitNamed("rhs", BO->getRHS());
        return;
      }
      if (auto *UO = dyn_cast<UnaryOperator>(S)) {
        J.attribute("op", UnaryOperator::getOpcodeStr(UO->getOpcode()));
        J.attribute("postfix", UO->isPostfix());
        tryConst(UO);
        emitNamed("sub", UO->getSubExpr());
        return;
      }
      if (auto *CO = dyn_cast<ConditionalOperator>(S)) {
        tryConst(CO);
        emitNamed("cond", CO->getCond());
        emitNamed("then", CO->getTrueExpr());
        emitNamed("else", CO->getFalseExpr());
        return;
      }
      if (auto *AS = dyn_cast<ArraySubscriptExpr>(S)) {
        emitNamed("base", AS->getBase());
        emitNamed("idx", AS->getIdx());
        return;
      }
      if (auto *CE = dyn_cast<CastExpr>(S)) {
        J.attribute("ck", CE->getCastKindName());
        if (isa<ImplicitCastExpr>(CE)) J.attribute("implicit", true);
        tryConst(CE);
        emitNamed("sub", CE->getSubExpr());
        return;
      }
      if (auto *PE = dyn_cast<ParenExpr>(S)) { tryConst(PE); emitNamed("sub", PE->getSubExpr()); return; }
      if (auto *NE = dyn_cast<CXXNewExpr>(S)) {
        J.attribute("alloct", typeId(NE->getAllocatedType()));
        J.attribute("array", NE->isArray());
        if (NE->isArray() && NE->getArraySize()) emitNamed("size", *NE->getArraySize());
        if (NE->getNumPlacementArgs() > 0) J.attribute("placement", true);
        if (const Expr *Init = NE->getInitializer()) emitNamed("init", Init);
        if (NE->isArray() && NE->getInitializer()) J.attribute("arrayinit", true);
        return;
      }
      if (auto *DE = dyn_cast<CXXDeleteExpr>(S)) {
        J.attribute("array", DE->isArrayForm());
        emitNamed("sub", DE->getArgument());
        return;
      }
      if (auto *CC = dyn_cast<CXXConstructExpr>(S)) {
        const CXXConstructorDecl *CD = CC->getConstructor();
        emitCallee(CD);
        J.attribute("rec", recName(CD->getParent()));
        if (isa<CXXTemporaryObjectExpr>(S)) J.attribute("temp", true);
        J.attributeArray("args", [&] {
          for (const Expr *A : CC->arguments()) emitStmt(A);
        });
        return;
      }
      if (auto *CE = dyn_cast<CallExpr>(S)) {
        const FunctionDecl *FD = CE->getDirectCallee();
        if (FD) emitCallee(FD);
        if (auto *MCE = dyn_cast<CXXMemberCallExpr>(S)) {
          J.attribute("member", true);
          if (const Expr *Obj = MCE->getImplicitObjectArgument()) emitNamed("obj", Obj);
          // virtual dispatch happens unless the call is qualified (X::f())
          if (auto *ME = dyn_cast<MemberExpr>(MCE->getCallee()->IgnoreParens())) {
            if (ME->hasQualifier()) J.attribute("qualified", true);
            J.attribute("arrow", ME->isArrow());
          }
        } else if (auto *OCE = dyn_cast<CXXOperatorCallExpr>(S)) {
          J.attribute("opcall", getOperatorSpelling(OCE->getOperator()));
        }
        if (!FD) emitNamed("calleeexpr", CE->getCallee());
        tryConst(CE);
        J.attributeArray("args", [&] {
          for (const Expr *A : CE->arguments()) emitStmt(A);
        });
        return;
      }
      if (auto *LE = dyn_cast<LambdaExpr>(S)) {
        std::string LId = CurOuterId + "@lambda" + std::to_string(++LambdaCounter);
        LambdaIds[LE] = LId;
        PendingLambdas.push_back(LE);
        J.attribute("lambda", LId);
        J.attributeArray("captures", [&] {
          for (const LambdaCapture &C : LE->captures()) {
            J.object([&] {
              if (C.capturesThis()) {
                J.attribute("this", true);
              } else if (C.capturesVariable()) {
                const VarDecl *VD = C.getCapturedVar();
                J.attribute("n", VD->getName());
                if (VD->hasGlobalStorage()) J.attribute("u", usr(VD->getCanonicalDecl()));
                else J.attribute("d", localId(VD));
                J.attribute("t", typeId(VD->getType()));
              }
              J.attribute("byref", C.getCaptureKind() == LCK_ByRef);
              J.attribute("implicit", C.isImplicit());
            });
          }
        });
        return;
      }
      if (auto *ILE = dyn_cast<InitListExpr>(S)) {
        const InitListExpr *Sem = ILE->isSemanticForm() ? ILE : (ILE->getSemanticForm() ? ILE->getSemanticForm() : ILE);
        J.attributeArray("inits", [&] {
          for (const Expr *I : Sem->inits()) {
            if (I) emitStmt(I); else J.value(nullptr);
          }
        });
        if (const RecordDecl *RD = ILE->getType()->getAsRecordDecl()) {
          J.attributeArray("fields", [&] {
            for (const FieldDecl *F : RD->fields()) J.value(F->getName());
          });
        }
        return;
      }
      if (auto *DS = dyn_cast<DeclStmt>(S)) {
        J.attributeArray("decls", [&] {
          for (const Decl *D : DS->decls()) {
            if (auto *VD = dyn_cast<VarDecl>(D)) emitVarDecl(VD);
            else J.object([&] { J.attribute("k", D->getDeclKindName()); });
          }
        });
        return;
      }
      if (auto *IS = dyn_cast<IfStmt>(S)) {
        emitNamed("init", IS->getInit());
        if (IS->getConditionVariableDeclStmt()) emitNamed("condvar", IS->getConditionVariableDeclStmt());
        emitNamed("cond", IS->getCond());
        emitNamed("then", IS->getThen());
        emitNamed("else", IS->getElse());
        return;
      }
      if (auto *FS = dyn_cast<ForStmt>(S)) {
        emitNamed("init", FS->getInit());
        emitNamed("cond", FS->getCond());
        emitNamed("inc", FS->getInc());
        emitNamed("body", FS->getBody());
        return;
      }
      if (auto *WS = dyn_cast<WhileStmt>(S)) {
        emitNamed("cond", WS->getCond());
        emitNamed("body", WS->getBody());
        return;
      }
      if (auto *DS2 = dyn_cast<DoStmt>(S)) {
        emitNamed("body", DS2->getBody());
        emitNamed("cond", DS2->getCond());
        return;
      }
      if (auto *SS = dyn_cast<SwitchStmt>(S)) {
        emitNamed("cond", SS->getCond());
        emitNamed("body", SS->getBody());
        return;
      }
      if (auto *CS = dyn_cast<CaseStmt>(S)) {
        if (CS->getLHS()) {
          Expr::EvalResult R;
          if (!CS->getLHS()->isValueDependent() && CS->getLHS()->EvaluateAsInt(R, Ctx))
            J.attribute("v", R.Val.getInt().getExtValue());
          emitNamed("lhs", CS->getLHS());
        }
        emitNamed("sub", CS->getSubStmt());
        return;
      }
      if (auto *DfS = dyn_cast<DefaultStmt>(S)) { emitNamed("sub", DfS->getSubStmt()); return; }
      if (auto *RS = dyn_cast<ReturnStmt>(S)) { emitNamed("value", RS->getRetValue()); return; }
      if (auto *RF = dyn_cast<CXXForRangeStmt>(S)) {
        emitNamed("range", RF->getRangeStmt());
        emitNamed("begin", RF->getBeginStmt());
        emitNamed("end", RF->getEndStmt());
        emitNamed("cond", RF->getCond());
        emitNamed("inc", RF->getInc());
        emitNamed("loopvar", RF->getLoopVarStmt());
        emitNamed("body", RF->getBody());
        return;
      }
      if (auto *UL = dyn_cast<UnresolvedLookupExpr>(S)) { J.attribute("n", UL->getName().getAsString()); return; }
      if (auto *DM = dyn_cast<CXXDependentScopeMemberExpr>(S)) { J.attribute("n", DM->getMember().getAsString()); }
      if (auto *UM = dyn_cast<UnresolvedMemberExpr>(S)) { J.attribute("n", UM->getMemberName().getAsString()); }
      if (auto *E = dyn_cast<Expr>(S)) tryConst(E);
      // generic: children in order
      emitChildren(S);
    });
  }

  // ---- CFG ---------------------------------------------------------------
  void emitCFG(const Decl *D, const Stmt *Body) {
    CFG::BuildOptions BO;
    BO.setAllAlwaysAdd();
    BO.AddImplicitDtors = true;
    BO.AddInitializers = true;
    BO.AddTemporaryDtors = false;
    BO.AddEHEdges = false;
    BO.PruneTriviallyFalseEdges = true;
    std::unique_ptr<CFG> G = CFG::buildCFG(D, const_cast<Stmt *>(Body), &Ctx, BO);
    if (!G) { J.attribute("cfg", nullptr); return; }
    J.attributeObject("cfg", [&] {
      J.attribute("entry", G->getEntry().getBlockID());
      J.attribute("exit", G->getExit().getBlockID());
      J.attributeArray("blocks", [&] {
        for (const CFGBlock *B : *G) {
          J.object([&] {
            J.attribute("id", B->getBlockID());
            J.attributeArray("e", [&] {
              for (const CFGElement &El : *B) {
                if (auto CS = El.getAs<CFGStmt>()) {
                  J.value((int64_t)stmtId(CS->getStmt()));
                } else if (auto CI = El.getAs<CFGInitializer>()) {
                  const CXXCtorInitializer *I = CI->getInitializer();
                  J.object([&] {
                    J.attribute("init", I->isAnyMemberInitializer() ? I->getAnyMember()->getName() : llvm::StringRef("<base>"));
                    if (I->getInit()) J.attribute("s", (int64_t)stmtId(I->getInit()));
                  });
                } else if (auto AD = El.getAs<CFGAutomaticObjDtor>()) {
                  J.object([&] {
                    J.attribute("dtor", (int64_t)localId(AD->getVarDecl()));
                    J.attribute("n", AD->getVarDecl()->getName());
                    J.attribute("t", typeId(AD->getVarDecl()->getType()));
                  });
                } else if (auto DD = El.getAs<CFGDeleteDtor>()) {
                  J.object([&] { J.attribute("deletedtor", (int64_t)stmtId(DD->getDeleteExpr())); });
                } else {
                  J.object([&] { J.attribute("other", (int)El.getKind()); });
                }
              }
            });
            J.attributeArray("s", [&] {
              for (auto I = B->succ_begin(), E = B->succ_end(); I != E; ++I) {
                if (I->isReachable()) J.value((int64_t)I->getReachableBlock()->getBlockID());
                else if (I->getPossiblyUnreachableBlock())
                  J.value(-(int64_t)I->getPossiblyUnreachableBlock()->getBlockID() - 1);  // unreachable edge: -(id+1)
                else J.value(nullptr);
              }
            });
            if (const Stmt *T = B->getTerminatorStmt()) {
              J.attribute("term", (int64_t)stmtId(T));
              J.attribute("termk", T->getStmtClassName());
            }
            if (const Stmt *C = B->getTerminatorCondition()) J.attribute("cond", (int64_t)stmtId(C));
            if (const Stmt *L = B->getLabel()) J.attribute("label", (int64_t)stmtId(L));
            if (B->hasNoReturnElement()) J.attribute("noreturn", true);
          });
        }
      });
    });
  }

  // ---- functions ----------------------------------------------------------
  void emitFunctionHeader(const FunctionDecl *FD) {
    J.attribute("qn", FD->getQualifiedNameAsString());
    J.attribute("n", FD->getNameAsString());
    J.attribute("file", relFile(FD->getLocation()));
    J.attribute("line", lineOf(FD->getLocation()));
    J.attribute("endline", lineOf(FD->getEndLoc()));
    J.attribute("ret", typeId(FD->getReturnType()));
    if (auto *MD = dyn_cast<CXXMethodDecl>(FD)) {
      J.attribute("rec", recName(MD->getParent()));
      if (MD->isVirtual()) J.attribute("virtual", true);
      if (MD->isStatic()) J.attribute("static", true);
      if (MD->isConst()) J.attribute("const", true);
      if (isa<CXXConstructorDecl>(MD)) J.attribute("ctor", true);
      if (isa<CXXDestructorDecl>(MD)) J.attribute("dtor", true);
      J.attribute("access", MD->getAccess() == AS_public ? "public" : (MD->getAccess() == AS_protected ? "protected" : "private"));
    }
    if (FD->isTemplateInstantiation()) J.attribute("instantiation", true);
    if (const TemplateArgumentList *TAL = FD->getTemplateSpecializationArgs()) emitTemplateArgs(TAL);
    J.attributeArray("params", [&] {
      for (const ParmVarDecl *P : FD->parameters()) {
        J.object([&] {
          J.attribute("n", P->getName());
          J.attribute("t", typeId(P->getType()));
          J.attribute("d", localId(P));
          if (P->hasDefaultArg() && !P->hasUninstantiatedDefaultArg() && !P->hasUnparsedDefaultArg()) {
            const Expr *DA = P->getDefaultArg();
            Expr::EvalResult R;
            if (DA && !DA->isValueDependent() && DA->getType()->isIntegralOrEnumerationType() && DA->EvaluateAsInt(R, Ctx))
              J.attribute("default", R.Val.getInt().getExtValue());
            else J.attribute("hasdefault", true);
          }
        });
      }
    });
  }

  void emitFunctionBody(const FunctionDecl *FD) {
    if (auto *CD = dyn_cast<CXXConstructorDecl>(FD)) {
      J.attributeArray("inits", [&] {
        for (const CXXCtorInitializer *I : CD->inits()) {
          J.object([&] {
            if (I->isAnyMemberInitializer()) {
              J.attribute("field", I->getAnyMember()->getName());
              J.attribute("rec", recName(I->getAnyMember()->getParent()));
            } else if (I->isBaseInitializer()) {
              J.attribute("base", recName(I->getBaseClass()->getAsCXXRecordDecl()));
            } else if (I->isDelegatingInitializer()) {
              J.attribute("delegating", true);
            }
            J.attribute("written", I->isWritten());
            if (I->getInit()) emitNamed("init", I->getInit());
          });
        }
      });
    }
    emitNamed("body", FD->getBody());
    emitCFG(FD, FD->getBody());
  }

  void emitFunction(const FunctionDecl *FD) {
    std::string Id = funcId(FD);
    if (!SeenFunctions.insert(Id).second) return;
    LocalIds.clear();
    StmtIds.clear();
    PendingLambdas.clear();
    LambdaIds.clear();
    LambdaCounter = 0;
    CurOuterId = Id;
    J.object([&] {
      J.attribute("id", Id);
      emitFunctionHeader(FD);
      emitFunctionBody(FD);
    });
    // lambdas (possibly nested) share the local/stmt numbering of the outer function
    for (size_t i = 0; i < PendingLambdas.size(); ++i) {
      const LambdaExpr *LE = PendingLambdas[i];
      const CXXMethodDecl *Op = LE->getCallOperator();
      J.object([&] {
        J.attribute("id", LambdaIds[LE]);
        J.attribute("parent", Id);
        J.attribute("islambda", true);
        emitFunctionHeader(Op);
        emitNamed("body", Op->getBody());
        emitCFG(Op, Op->getBody());
      });
    }
  }

  // ---- records ------------------------------------------------------------
  void emitRecord(const CXXRecordDecl *RD) {
    std::string Q = recName(RD);
    if (Q.empty() || RD->isLambda()) return;
    if (!SeenRecords.insert(Q).second) return;
    J.object([&] {
      J.attribute("qn", Q);
      J.attribute("file", relFile(RD->getLocation()));
      J.attribute("line", lineOf(RD->getLocation()));
      J.attribute("kind", RD->isStruct() ? "struct" : (RD->isUnion() ? "union" : "class"));
      if (RD->isAbstract()) J.attribute("abstract", true);
      J.attributeArray("bases", [&] {
        for (auto &B : RD->bases()) {
          if (const CXXRecordDecl *BD = B.getType()->getAsCXXRecordDecl()) J.value(recName(BD));
        }
      });
      if (!RD->isDependentType() && !RD->isInvalidDecl()) {
        const ASTRecordLayout &L = Ctx.getASTRecordLayout(RD);
        J.attribute("size", (int64_t)L.getSize().getQuantity());
        J.attribute("pad", hasPadding(Ctx.getRecordType(RD)));
      }
      J.attributeArray("fields", [&] {
        for (const FieldDecl *F : RD->fields()) {
          J.object([&] {
            J.attribute("n", F->getName());
            J.attribute("t", typeId(F->getType()));
            J.attribute("l", lineOf(F->getLocation()));
            if (const ConstantArrayType *CAT = Ctx.getAsConstantArrayType(F->getType()))
              J.attribute("extent", (int64_t)CAT->getSize().getZExtValue());
            J.attribute("access", F->getAccess() == AS_public ? "public" : (F->getAccess() == AS_protected ? "protected" : "private"));
          });
        }
      });
      J.attributeArray("statics", [&] {
        for (const Decl *D : RD->decls())
          if (auto *VD = dyn_cast<VarDecl>(D))
            J.object([&] {
              J.attribute("n", VD->getName());
              J.attribute("u", usr(VD->getCanonicalDecl()));
              J.attribute("t", typeId(VD->getType()));
              J.attribute("const", VD->getType().isConstQualified());
            });
      });
      J.attributeArray("methods", [&] {
        for (const CXXMethodDecl *M : RD->methods()) {
          if (M->isImplicit()) continue;
          J.object([&] {
            J.attribute("n", M->getNameAsString());
            J.attribute("id", funcId(M));
            J.attribute("l", lineOf(M->getLocation()));
            if (M->isVirtual()) J.attribute("virtual", true);
            if (M->isPure()) J.attribute("pure", true);
            if (M->isStatic()) J.attribute("static", true);
            if (isa<CXXConstructorDecl>(M)) J.attribute("ctor", true);
            if (isa<CXXDestructorDecl>(M)) J.attribute("dtor", true);
            J.attribute("access", M->getAccess() == AS_public ? "public" : (M->getAccess() == AS_protected ? "protected" : "private"));
            J.attribute("nparams", (int64_t)M->getNumParams());
            J.attributeArray("ptypes", [&] {
              for (const ParmVarDecl *P : M->parameters()) J.value((int64_t)typeId(P->getType()));
            });
            J.attribute("ret", typeId(M->getReturnType()));
            J.attributeArray("overrides", [&] {
              for (const CXXMethodDecl *O : M->overridden_methods()) J.value(funcId(O));
            });
          });
        }
      });
    });
  }

  void emitGlobal(const VarDecl *VD) {
    std::string U = usr(VD->getCanonicalDecl());
    if (U.empty()) U = VD->getQualifiedNameAsString();
    bool isDef = VD->isThisDeclarationADefinition() != VarDecl::DeclarationOnly;
    std::string Key = U + (isDef ? "#def" : "#decl");
    if (!SeenGlobals.insert(Key).second) return;
    J.object([&] {
      J.attribute("u", U);
      J.attribute("qn", VD->getQualifiedNameAsString());
      J.attribute("t", typeId(VD->getType()));
      J.attribute("file", relFile(VD->getLocation()));
      J.attribute("line", lineOf(VD->getLocation()));
      J.attribute("const", VD->getType().isConstQualified());
      J.attribute("def", isDef);
      if (VD->isStaticLocal()) {
        J.attribute("staticlocal", true);
        if (auto *FD = dyn_cast<FunctionDecl>(VD->getDeclContext())) J.attribute("infunc", funcId(FD));
      }
      if (VD->isStaticDataMember()) J.attribute("staticmember", true);
      if (VD->getTLSKind() != VarDecl::TLS_None) J.attribute("tls", true);
      if (VD->hasInit()) {
        const Expr *I = VD->getInit();
        Expr::EvalResult R;
        if (!I->isValueDependent() && I->getType()->isIntegralOrEnumerationType() && I->EvaluateAsInt(R, Ctx))
          J.attribute("initv", R.Val.getInt().getExtValue());
        J.attribute("hasinit", true);
      }
    });
  }
};

class Collector : public RecursiveASTVisitor<Collector> {
public:
  Collector(Emitter &E) : E(E) {}
  Emitter &E;
  std::vector<const FunctionDecl *> Funcs;
  std::vector<const CXXRecordDecl *> Recs;
  std::vector<const VarDecl *> Globals;
  bool shouldVisitTemplateInstantiations() const { return true; }
  bool shouldVisitImplicitCode() const { return false; }
  bool VisitFunctionDecl(FunctionDecl *FD) {
    if (!FD->doesThisDeclarationHaveABody()) return true;
    if (FD->isDependentContext()) return true;  // uninstantiated templates: instantiations are visited
    if (!E.underRoot(FD->getLocation())) return true;
    if (auto *MD = dyn_cast<CXXMethodDecl>(FD))
      if (MD->getParent()->isLambda()) return true;  // emitted with the enclosing function
    Funcs.push_back(FD);
    return true;
  }
  bool VisitCXXRecordDecl(CXXRecordDecl *RD) {
    if (!RD->isThisDeclarationADefinition()) return true;
    if (RD->isDependentContext()) return true;
    if (!E.underRoot(RD->getLocation())) return true;
    Recs.push_back(RD);
    return true;
  }
  bool VisitVarDecl(VarDecl *VD) {
    if (!VD->hasGlobalStorage()) return true;
    if (isa<ParmVarDecl>(VD)) return true;
    if (VD->isInvalidDecl() || VD->getDeclContext()->isDependentContext()) return true;
    if (!E.underRoot(VD->getLocation())) return true;
    Globals.push_back(VD);
    return true;
  }
};

class Consumer : public ASTConsumer {
public:
  Consumer(std::string InFile) : InFile(std::move(InFile)) {}
  std::string InFile;
  void HandleTranslationUnit(ASTContext &Ctx) override {
    if (Ctx.getDiagnostics().hasErrorOccurred()) {
      llvm::errs() << "csdfacts: parse errors in " << InFile << "\n";
    }
    std::string Path = OutDir + "/" + Tag + "_" + std::to_string(UnitCounter++) + ".json";
    std::error_code EC;
    llvm::raw_fd_ostream OS(Path, EC);
    if (EC) { llvm::errs() << "csdfacts: cannot write " << Path << "\n"; return; }
    json::OStream J(OS);
    Emitter E(Ctx, J);
    Collector C(E);
    C.TraverseDecl(Ctx.getTranslationUnitDecl());
    J.object([&] {
      J.attribute("unit", InFile);
      J.attribute("errors", Ctx.getDiagnostics().hasErrorOccurred());
      J.attributeArray("functions", [&] {
        for (const FunctionDecl *FD : C.Funcs) E.emitFunction(FD);
      });
      J.attributeArray("records", [&] {
        for (const CXXRecordDecl *RD : C.Recs) E.emitRecord(RD);
      });
      J.attributeArray("globals", [&] {
        for (const VarDecl *VD : C.Globals) E.emitGlobal(VD);
      });
      J.attributeArray("types", [&] {
        for (auto &T : E.Types) {
          J.object([&] {
            J.attribute("s", T.s);
            J.attribute("bits", (int64_t)T.bits);
            J.attribute("kind", T.kind);
            if (T.pointee >= 0) J.attribute("pointee", (int64_t)T.pointee);
            if (!T.rec.empty()) J.attribute("rec", T.rec);
            if (T.isConst) J.attribute("const", true);
          });
        }
      });
    });
    OS << "\n";
  }
};

class Action : public ASTFrontendAction {
public:
  std::unique_ptr<ASTConsumer> CreateASTConsumer(CompilerInstance &, llvm::StringRef InFile) override {
    return std::make_unique<Consumer>(std::string(InFile));
  }
};

}  // namespace

int main(int argc, const char **argv) {
  auto Opts = CommonOptionsParser::create(argc, argv, Cat);
  if (!Opts) { llvm::errs() << llvm::toString(Opts.takeError()) << "\n"; return 2; }
  ClangTool Tool(Opts->getCompilations(), Opts->getSourcePathList());
  int rc = Tool.run(newFrontendActionFactory<Action>().get());
  return rc;
}
