"""Rule plumbing: registry, reports, violations."""
import time

RULES = {}


class Violation:
    def __init__(self, rule, key, loc, msg, func=None, detail=None):
        self.rule = rule
        self.key = key          # stable identity: names a construct, never a line number
        self.loc = loc          # file:line (for the reader; not part of the identity)
        self.msg = msg
        self.func = func
        self.detail = detail or {}

    def to_json(self):
        return {"rule": self.rule, "key": self.key, "loc": self.loc, "function": self.func,
                "message": self.msg, "detail": self.detail}


class Report:
    def __init__(self, rule):
        self.rule = rule
        self.instances = []      # what was analysed (strings "file:line  what")
        self.obligations = 0
        self.violations = []
        self.notes = []
        self.functions = set()   # functions visited
        self.wall_s = 0.0

    def inst(self, loc, what):
        self.instances.append("%s  %s" % (loc, what))

    def ob(self, n=1):
        self.obligations += n

    def viol(self, key, loc, msg, func=None, detail=None):
        self.violations.append(Violation(self.rule, key, loc, msg, func, detail))

    def visit(self, f):
        self.functions.add(f.qn if hasattr(f, "qn") else str(f))


def rule(name, expected_min, doc):
    """Register a rule. expected_min: number of instances confirmed by hand on the pinned tree;
    fewer on a later run means the rule lost its anchors (analysis broken, exit 2)."""
    def deco(fn):
        RULES[name] = {"name": name, "fn": fn, "expected_min": expected_min, "doc": doc}
        return fn
    return deco


def run_rule(name, db, cache={}):
    key = (name, id(db))
    if key in cache:
        return cache[key]
    r = RULES[name]
    rep = Report(name)
    t0 = time.time()
    r["fn"](db, rep)
    rep.wall_s = round(time.time() - t0, 3)
    rep.expected_min = r["expected_min"]
    rep.doc = r["doc"]
    cache[key] = rep
    return rep
