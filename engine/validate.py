#!/usr/bin/env python3
"""Validate MANIFEST.json and evidence/*.json against the schemas.  Run with python3-vt (has jsonschema)."""
import json, sys, glob, os
import jsonschema
V = os.path.dirname(os.path.dirname(os.path.abspath(__file__)))
jsonschema.validate(json.load(open(V + "/MANIFEST.json")), json.load(open("/root/.vp/MANIFEST.schema.json")))
print("MANIFEST ok")
es = json.load(open("/root/.vp/EVIDENCE.schema.json"))
for f in sorted(glob.glob(V + "/evidence/*.json")):
    jsonschema.validate(json.load(open(f)), es)
    print("ok", os.path.basename(f))
